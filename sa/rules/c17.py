"""C17 — PVQ, Laplace and table-driven symbol codes (table clauses exhaustive).

R17.1 every table that reaches an ec_{enc,dec}_icdf{,16} call is a
      concatenation of strictly decreasing runs each ending in 0 (so it
      terminates from every offset the code can form) and its first entries fit
      the call's ftb; stack-built tables get their terminator on every path.
R17.2 CELT_PVQ_U_DATA obeys U's recurrence (compared with the mathematical
      definition in exact integers), every (N,K) the static mode can request
      stays inside the stored rows and V(N,K) < 2^32.
R17.3 the pulse cache equals the generator's ceil-log2 (1/8 bit) of V minus
      one, is monotone, and bits[0] is the largest pseudo-pulse count that fits.
R17.4 Laplace model data satisfy the coder's stated preconditions; encoder
      and decoder share ec_laplace_get_freq1 and the 15-bit total.
R17.5 fits_in32's frontier tables agree with the exact 32-bit frontier.
"""
from .. import sx, cfg as cfgm
from ..facts import Program, flatten
from ..pts import PointsTo
from ..compdb import AnalysisBroken

EXPLANATION = (
    'Decided (exhaustively over the constant data, for every configuration parsed): R17.1 all tables reaching the 78 '
    'iCDF coder call sites (resolved by points-to through pointer tables, codebook structs and selector fields) are '
    'strictly decreasing and zero-terminated from every offset, first entry < 2^ftb; stack-built tables are '
    'terminated on every path. R17.2 the PVQ U table equals the exact recurrence, V(N,K)<2^32 and every access is '
    'in-row for every (N,K) the static mode can request. R17.3 pulse cache = ceil(8*log2 V)-1 per the generator, '
    'monotone, bits[0] maximal. R17.4 Laplace parameters within the coder preconditions, enc/dec share the tail '
    'model. R17.5 fits_in32 frontier exact (custom-modes configuration). '
    'NOT decided: that cwrsi inverts icwrs (code, not data) and that the Laplace intervals tile [0,32768) for every '
    'parameter pair - those need executing the interval construction.')

ICDF_FUNCS = {'ec_enc_icdf': (2, 3), 'ec_dec_icdf': (1, 2), 'ec_enc_icdf16': (2, 3), 'ec_dec_icdf16': (1, 2)}


def flat_ints(init):
    out = [x for x in flatten(init)]
    if any(not isinstance(x, int) for x in out):
        return None
    return out


def check_icdf_table(vals, ftb):
    """concatenation of strictly decreasing runs each ending in 0"""
    if not vals:
        return 'empty table'
    if vals[-1] != 0:
        return 'last entry %d is not the terminating 0' % vals[-1]
    prev = None
    runs = 0
    for i, v in enumerate(vals):
        if prev is not None and prev != 0:
            if not v < prev:
                return 'entry %d (%d) is not below its predecessor (%d): not strictly decreasing' % (i, v, prev)
        if v == 0:
            runs += 1
        if ftb is not None and v >= (1 << ftb):
            return 'entry %d (%d) does not fit ftb=%d' % (i, v, ftb)
        prev = v
    return None


def nsym(vals, off=0):
    """number of symbols of the (sub-)table starting at off: index of first 0 + 1"""
    n = 0
    while off + n < len(vals) and vals[off + n] != 0:
        n += 1
    return n + 1


def r17_1(rep, prog, pt):
    tables_seen = {}
    nsites = 0
    for f in prog.functions_all:
        if not any(sx.callee_name(x) in ICDF_FUNCS for x in f.calls()):
            continue
        for b, i, n in cfgm.CFG(f).find(lambda n: n[0] == 'call' and sx.callee_name(n) in ICDF_FUNCS):
            nsites += 1
            name = sx.callee_name(n)
            ti, fi = ICDF_FUNCS[name]
            targ = n[2][ti]
            ftb = sx.int_val(n[2][fi])
            where = '%s:%s' % (f.file, sx.line(n))
            inst = '%s:%s %s(%s)' % (prog.config, f.name, name, sx.show(targ)[:60])
            rep.functions.add(f.name)
            if ftb is None:
                rep.unresolved('R17.1', 'ftb argument is not a constant at ' + where)
                continue
            objs = sorted(pt.pts(f, targ))
            if objs:
                bad = None
                for o in objs:
                    g = prog.globals.get(o)
                    vals = flat_ints(g['init']) if g and 'init' in g else None
                    if vals is None:
                        rep.unresolved('R17.1', 'table %s has no constant initialiser (%s)' % (o, where))
                        bad = 'unresolved'
                        continue
                    if not g['const']:
                        bad = 'table %s is not const' % o
                    err = check_icdf_table(vals, ftb)
                    tables_seen[o] = len(vals)
                    if err:
                        bad = 'table %s: %s' % (o, err)
                        break
                if bad and bad != 'unresolved':
                    rep.violated('R17.1', inst, where, bad, key='%s:%s' % (f.name, objs[0]))
                elif not bad:
                    rep.holds('R17.1', inst, where, 'tables %s: strictly decreasing runs ending in 0, entries < 2^%d' % (objs, ftb))
                continue
            # stack-built table
            root, path = sx.lvalue_root(targ)
            if sx.kind(root) != 'local' or root[2] not in f.locals or 'dim' not in f.locals[root[2]]:
                rep.unresolved('R17.1', 'table argument %s cannot be resolved to constant data or a local array (%s)' % (sx.show(targ), where))
                continue
            dim = int(f.locals[root[2]]['dim'])
            lid = root[2]
            ok = False
            detail = ''
            cf = cfgm.CFG(f)
            for b2, i2, s in cf.positions():
                for m in sx.walk(s):
                    term = None
                    if m[0] == 'assign' and sx.kind(m[1]) == 'idx' and sx.kind(sx.strip(m[1][1])) == 'local' \
                            and sx.strip(m[1][1])[2] == lid and sx.int_val(m[1][2]) == dim - 1 and sx.int_val(m[2]) == 0:
                        term = 'assignment %s' % sx.show(m)
                    if m[0] == 'decls':
                        for d in m[1]:
                            if d[0] == 'decl' and d[2] == lid and d[3] is not None and sx.kind(d[3]) == 'initlist' \
                                    and (len(d[3][1]) < dim or sx.int_val(d[3][1][-1]) == 0):
                                term = 'initialiser %s' % sx.show(d[3])[:40]
                    if term and cf.pos_dominates((b2, i2), (b, i)):
                        # no later store to the last element
                        ok = True
                        detail = term
            later = [m for _, _, s in cf.positions() for m in sx.walk(s)
                     if m[0] in ('assign', 'cassign') and sx.kind(m[1 if m[0] == 'assign' else 2]) == 'idx'
                     and sx.kind(sx.strip(m[1 if m[0] == 'assign' else 2][1])) == 'local'
                     and sx.strip(m[1 if m[0] == 'assign' else 2][1])[2] == lid]
            nonterm = [m for m in later if not (sx.int_val(m[1][2]) == dim - 1 and sx.int_val(m[2]) == 0)]
            # a store with a non-constant index could hit the terminator unless bounded below dim-1
            risky = [m for m in nonterm if sx.int_val(m[1][2]) is None and not _loop_bounded_below(cf, m, dim - 1)]
            risky += [m for m in nonterm if sx.int_val(m[1][2]) == dim - 1]
            if ok and not risky:
                rep.holds('R17.1', inst, where, 'stack table %s[%d]: terminator set by %s, which dominates the call; other stores use indices < %d' % (root[1], dim, detail, dim - 1))
            elif ok:
                rep.violated('R17.1', inst, where, 'stack table %s: a store may overwrite the terminator: %s' % (root[1], sx.show(risky[0])), key='%s:%s' % (f.name, root[1]))
            else:
                rep.violated('R17.1', inst, where, 'stack table %s[%d] is not zero-terminated on every path to the call' % (root[1], dim), key='%s:%s' % (f.name, root[1]))
    # the silk sign probabilities feed icdf[0] of a 2-entry table: neither sign may have probability 0
    if 'silk_sign_iCDF' in prog.globals:
        v = flat_ints(prog.table('silk_sign_iCDF'))
        if v is None or not all(1 <= x <= 255 for x in v):
            rep.violated('R17.1', '%s:silk_sign_iCDF entries in [1,255]' % prog.config, prog.glob('silk_sign_iCDF')['loc'], 'entry outside [1,255]: %s' % v, key='silk_sign_iCDF')
        else:
            rep.holds('R17.1', '%s:silk_sign_iCDF entries in [1,255]' % prog.config, prog.glob('silk_sign_iCDF')['loc'], '%d entries' % len(v))
    # every other object that is named/typed like an iCDF table but was not reached (belt and braces)
    for name, g in sorted(prog.globals.items()):
        if name in tables_seen or 'init' not in g:
            continue
        if ('icdf' in name.lower()) and name not in ('silk_sign_iCDF',) and not g.get('elem_ptr'):
            vals = flat_ints(g['init'])
            if vals is None:
                continue
            err = check_icdf_table(vals, None)
            if err:
                rep.violated('R17.1', '%s:%s (not reached by a resolved call)' % (prog.config, name), g['loc'], err, key=name)
            else:
                rep.holds('R17.1', '%s:%s (not reached by a resolved call)' % (prog.config, name), g['loc'], '%d entries' % len(vals))
    rep.extra.setdefault('icdf', {})[prog.config] = {'call_sites': nsites, 'distinct_tables': len(tables_seen)}
    return nsites


def _loop_bounded_below(cf, m, limit):
    """index of the store m is a local i with every assignment i=const<limit
    / i++ under a loop condition i < c with c <= limit"""
    idx = sx.strip(m[1][2])
    if sx.kind(idx) != 'local':
        return False
    lid = idx[2]
    for b in cf.blocks:
        c = cf.cond(b)
        if c is not None and sx.kind(c) == 'bin' and c[1] == '<' and sx.kind(sx.strip(c[2])) == 'local' \
                and sx.strip(c[2])[2] == lid and sx.int_val(c[3]) is not None and sx.int_val(c[3]) <= limit:
            return True
    return False


# ---------------------------------------------------------------- PVQ

def U_exact(maxn, maxk):
    """U(n,k) by its definition, exact integers"""
    U = [[0] * (maxk + 2) for _ in range(maxn + 2)]
    U[0][0] = 1
    for n in range(1, maxn + 2):
        for k in range(1, maxk + 2):
            U[n][k] = U[n - 1][k] + U[n][k - 1] + U[n - 1][k - 1]
    return U


def get_pulses(i):
    return i if i < 8 else (8 + (i & 7)) << ((i >> 3) - 1)


def ilog(v):
    return v.bit_length()


def log2_frac(val, frac):
    """port of celt/cwrs.c log2_frac (the documented conservative 1/2^frac-bit log2)"""
    l = ilog(val)
    if val & (val - 1):
        if l > 16:
            val = ((val - 1) >> (l - 16)) + 1
        else:
            val <<= 16 - l
        l = (l - 1) << frac
        while True:
            b = val >> 16
            l += b << frac
            val = (val + b) >> b
            val = (val * val + 0x7FFF) >> 15
            frac -= 1
            if frac < 0:
                break
        return l + (1 if val > 0x8000 else 0)
    return (l - 1) << frac


def pvq_rows(prog):
    data = flat_ints(prog.table('CELT_PVQ_U_DATA'))
    rows = prog.table('CELT_PVQ_U_ROW')
    if data is None:
        raise AnalysisBroken('CELT_PVQ_U_DATA not constant')
    bases = []
    for r in rows:
        if not isinstance(r, dict) or r.get('addr') != 'CELT_PVQ_U_DATA':
            raise AnalysisBroken('CELT_PVQ_U_ROW entry does not point into CELT_PVQ_U_DATA: %r' % (r,))
        if r['off'] % 4:
            raise AnalysisBroken('misaligned row offset')
        bases.append(r['off'] // 4)
    return data, bases


def r17_2(rep, prog):
    data, bases = pvq_rows(prog)
    nrows = len(bases)
    loc = prog.glob('CELT_PVQ_U_DATA')['loc']
    # row r stores columns r .. end_r-1 at data[bases[r]+k]
    ends = []
    for r in range(nrows):
        start = bases[r] + r
        nxt = (bases[r + 1] + r + 1) if r + 1 < nrows else len(data)
        if nxt <= start or (r and start != ends_abs[-1]):
            rep.violated('R17.2', '%s:row layout %d' % (prog.config, r), loc, 'row %d data [%d,%d) does not follow row %d' % (r, start, nxt, r - 1), key='layout')
            return None
        if r == 0:
            ends_abs = []
        ends_abs.append(nxt)
        ends.append(nxt - bases[r])       # first column NOT stored
    maxk = max(ends)
    U = U_exact(nrows + 1, maxk + 1)
    nent = 0
    bad = None
    for r in range(nrows):
        for k in range(r, ends[r]):
            nent += 1
            v = data[bases[r] + k]
            if v != U[r][k]:
                bad = (r, k, v, U[r][k])
                break
        if bad:
            break
    if bad:
        rep.violated('R17.2', '%s:U(%d,%d)' % (prog.config, bad[0], bad[1]), loc,
                     'stored %d, definition gives %d (U(n,k)=U(n-1,k)+U(n,k-1)+U(n-1,k-1))' % (bad[2], bad[3]), key='U-value')
    else:
        rep.holds('R17.2', '%s:U table values' % prog.config, loc, '%d entries in %d rows equal the exact recurrence (all < 2^32)' % (nent, nrows), n=nent)

    def stored(n, k):
        a, b = (n, k) if n <= k else (k, n)
        return a < nrows and a <= b < ends[a]
    return stored, U, nrows, ends


def mode_cache(prog):
    """(N, row offset) for every (LM+1, band) of every static mode"""
    out = []
    for name, g in prog.globals.items():
        if g.get('elem_record') == 'OpusCustomMode' and isinstance(g.get('init'), dict):
            m = g['init']
            nb = m['nbEBands']
            maxLM = m['maxLM']
            eb = flat_ints(prog.table(m['eBands']['addr']))
            cache = m['cache']
            index = flat_ints(prog.table(cache['index']['addr']))
            bits = flat_ints(prog.table(cache['bits']['addr']))
            caps = flat_ints(prog.table(cache['caps']['addr']))
            out.append((name, nb, maxLM, eb, cache['size'], index, bits, caps, cache['bits']['addr']))
    if not out:
        raise AnalysisBroken('no static CELT mode object found')
    return out


def r17_23(rep, prog):
    res = r17_2(rep, prog)
    if res is None:
        return
    stored, U, nrows, ends = res
    maxU = len(U) - 1
    for name, nb, maxLM, eb, size, index, bits, caps, bitsname in mode_cache(prog):
        loc = prog.glob(bitsname)['loc']
        if size != len(bits):
            rep.violated('R17.3', '%s:%s cache.size' % (prog.config, name), loc, 'size %d != len(bits) %d' % (size, len(bits)), key='size')
        if len(index) != nb * (maxLM + 2):
            rep.violated('R17.3', '%s:%s cache.index length' % (prog.config, name), loc, '%d != nbEBands*(maxLM+2)=%d' % (len(index), nb * (maxLM + 2)), key='index-len')
            continue
        rows = {}
        for i in range(maxLM + 2):
            for j in range(nb):
                N = (eb[j + 1] - eb[j]) << i >> 1
                off = index[i * nb + j]
                if N == 0:
                    if off != -1:
                        rep.violated('R17.3', '%s:%s index[%d]' % (prog.config, name, i * nb + j), loc, 'N=0 band has row %d' % off, key='index-n0')
                    continue
                if not (0 <= off < len(bits)) or off + bits[off] >= len(bits) + 0 and off + bits[off] > len(bits) - 1:
                    rep.violated('R17.3', '%s:%s index[%d]' % (prog.config, name, i * nb + j), loc, 'row offset %d (+%d) outside cache.bits[%d]' % (off, bits[off] if 0 <= off < len(bits) else -1, len(bits)), key='index-range')
                    continue
                if rows.setdefault(off, N) != N:
                    rep.violated('R17.3', '%s:%s index[%d]' % (prog.config, name, i * nb + j), loc, 'row %d shared by N=%d and N=%d' % (off, rows[off], N), key='index-share')
        nent = 0
        nacc = 0
        for off, N in sorted(rows.items()):
            K0 = bits[off]
            inst = '%s:%s row@%d N=%d maxpseudo=%d' % (prog.config, name, off, N, K0)
            # R17.2: reachable (N,K)
            Kmax = get_pulses(K0)
            problem = None
            if N >= 2:
                for K in range(1, Kmax + 1):
                    for (n, k) in ((N, K), (N, K + 1)):
                        nacc += 1
                        if not stored(n, k):
                            problem = 'U(%d,%d) needed for V(%d,%d) is outside the stored rows' % (n, k, N, K)
                            break
                    if problem:
                        break
                    a, b = min(N, K), max(N, K)
                    V = _U(U, N, K) + _U(U, N, K + 1)
                    if V >= 1 << 32:
                        problem = 'V(%d,%d)=%d does not fit 32 bits' % (N, K, V)
                        break
                if not problem:
                    # every access pattern of icwrs/cwrsi: U(n',k') for 2<=n'<=N (icwrs uses _n-j in 1..N), 0<=k'<=Kmax+1
                    for n in range(1, N + 1):
                        for k in range(0, Kmax + 2):
                            nacc += 1
                            if not stored(n, k):
                                problem = 'access U(%d,%d) (inside icwrs/cwrsi for N=%d,K<=%d) is outside the stored rows' % (n, k, N, Kmax)
                                break
                        if problem:
                            break
            if problem:
                rep.violated('R17.2', inst, prog.glob('CELT_PVQ_U_DATA')['loc'], problem, key='reach:N=%d' % N)
            else:
                rep.holds('R17.2', inst, prog.glob('CELT_PVQ_U_DATA')['loc'], 'V(N,K)<2^32 and all U accesses in-row for K<=%d' % Kmax)
            # R17.3
            problem = None
            # bits[0]: largest K<=40 such that V(N,get_pulses(K+1)) fits... the generator stops at the first K+1 that does not fit
            K = 0
            while K < 40 and _fits(U, N, get_pulses(K + 1)):
                K += 1
            if K != K0:
                problem = 'bits[0]=%d but the largest pseudo-pulse count whose V fits 32 bits (cap 40) is %d' % (K0, K)
            prev = None
            for j in range(1, K0 + 1):
                nent += 1
                got = bits[off + j]
                if N == 1:
                    want = (1 << 3) - 1
                else:
                    V = _U(U, N, get_pulses(j)) + _U(U, N, get_pulses(j) + 1)
                    want = log2_frac(V, 3) - 1
                    # definitional bracket, independent of the port: 8*log2(V)-1 <= want+1... checked via integers:
                    # 2^((got+1)/8) >= V  and 2^((got)/8) < V * 2^(1/8) (i.e. not more than ~1/8 bit + rounding too high)
                    if (1 << (got + 1)) < V ** 8 and not problem:
                        problem = 'bits[%d]=%d is below log2 V(%d,%d)' % (j, got, N, get_pulses(j))
                    if (1 << max(got - 1, 0)) >= V ** 8 and not problem:
                        problem = 'bits[%d]=%d overstates log2 V(%d,%d) by more than 1/4 bit' % (j, got, N, get_pulses(j))
                if got != want and not problem:
                    problem = 'bits[%d]=%d, generator value for V(%d,%d) is %d' % (j, got, N, get_pulses(j), want)
                if prev is not None and got < prev and not problem:
                    problem = 'bits[%d]=%d < bits[%d]=%d: not monotone' % (j, got, j - 1, prev)
                prev = got
            if problem:
                rep.violated('R17.3', inst, loc, problem, key='cache:N=%d' % N)
            else:
                rep.holds('R17.3', inst, loc, '%d entries = ceil(8 log2 V)-1, monotone; bits[0] maximal' % K0)
        rep.count(nent + nacc)
        rep.extra.setdefault('pvq', {})[prog.config] = {'mode': name, 'cache_rows': len(rows), 'cache_entries': nent, 'U_accesses_checked': nacc}


def _U(U, n, k):
    return U[n][k] if n < len(U) and k < len(U[0]) else _Ubig(n, k)


_big = {}


def _Ubig(n, k):
    # exact U for arguments beyond the precomputed square (symmetric)
    a, b = min(n, k), max(n, k)
    key = (a, b)
    if key in _big:
        return _big[key]
    # row-wise DP for row a up to column b
    prev = [1] + [0] * b
    for i in range(1, a + 1):
        cur = [0] * (b + 1)
        for j in range(1, b + 1):
            cur[j] = prev[j] + cur[j - 1] + prev[j - 1]
        prev = cur
    _big[key] = prev[b]
    return prev[b]


def _fits(U, N, K):
    return _Ubig(N, K) + _Ubig(N, K + 1) < (1 << 32)


def r17_4(rep, prog):
    g = prog.glob('e_prob_model')
    tab = g['init']
    n = 0
    bad = None
    for lm, a in enumerate(tab):
        for intra, row in enumerate(a):
            if len(row) % 2:
                bad = 'row length odd'
            for i in range(0, len(row), 2):
                n += 1
                fs0 = row[i] << 7
                decay = row[i + 1] << 6
                if not (0 < decay <= 11456):
                    bad = 'e_prob_model[%d][%d][%d]: decay %d outside (0,11456]' % (lm, intra, i + 1, decay)
                if not (0 < fs0 and 32768 - 32 - fs0 > 0):
                    bad = 'e_prob_model[%d][%d][%d]: fs0 %d leaves no room for the tail (32768-32-fs0<=0)' % (lm, intra, i, fs0)
    if bad:
        rep.violated('R17.4', '%s:e_prob_model preconditions' % prog.config, g['loc'], bad, key='e_prob_model')
    else:
        rep.holds('R17.4', '%s:e_prob_model preconditions' % prog.config, g['loc'], '%d (fs0,decay) pairs: 0<decay<=11456, 0<fs0<32736' % n, n=n)
    # dims agree with the band count used to index it: 2*min(i,20)+1 < 42
    dims = g['dims']
    if dims != [4, 2, 42]:
        rep.violated('R17.4', '%s:e_prob_model shape' % prog.config, g['loc'], 'dims %s != [4,2,42]' % dims, key='e_prob_model-shape')
    # sibling: both sides derive the tail from ec_laplace_get_freq1 and code on 15 bits
    enc = prog.fn('ec_laplace_encode')
    dec = prog.fn('ec_laplace_decode')

    def uses(f, name):
        return [c for c in f.calls() if sx.callee_name(c) == name]
    pe = {'freq1': len(uses(enc, 'ec_laplace_get_freq1')), 'bin': [sx.int_val(c[2][3]) for c in uses(enc, 'ec_encode_bin')]}
    pd = {'freq1': len(uses(dec, 'ec_laplace_get_freq1')), 'bin': [sx.int_val(c[2][1]) for c in uses(dec, 'ec_decode_bin')],
          'upd': [sx.int_val(c[2][3]) for c in uses(dec, 'ec_dec_update')]}
    ok = pe['freq1'] == 1 and pd['freq1'] == 1 and pe['bin'] == [15] and pd['bin'] == [15] and pd['upd'] == [32768]
    (rep.holds if ok else rep.violated)('R17.4', '%s:ec_laplace_encode/decode share tail model and 15-bit total' % prog.config,
                                        enc.where(), 'enc %s dec %s' % (pe, pd), **({} if ok else {'key': 'laplace-sib'}))
    # call sites pass fs = model[2i]<<7, decay = model[2i+1]<<6 on both sides
    sites = []
    for fn, callee in (('quant_coarse_energy_impl', 'ec_laplace_encode'), ('unquant_coarse_energy', 'ec_laplace_decode')):
        f = prog.fn(fn)
        for c in uses(f, callee):
            args = c[2][-2:]
            sites.append((fn, tuple(_shape(a) for a in args)))
    if len(sites) == 2 and sites[0][1] == sites[1][1] and sites[0][1] == (('<<', 7), ('<<', 6)):
        rep.holds('R17.4', '%s:laplace call sites scale (fs<<7, decay<<6) identically' % prog.config, None, str(sites))
    else:
        rep.violated('R17.4', '%s:laplace call sites' % prog.config, prog.fn('unquant_coarse_energy').where(), 'encoder/decoder parameter scaling differs: %s' % sites, key='laplace-sites')


def _shape(a):
    a = sx.strip(a)
    if sx.kind(a) == 'bin' and a[1] == '<<':
        return ('<<', sx.int_val(a[3]))
    return sx.show(a)


_rows = {}


def _row(a, upto):
    """U(a, 0..upto) exactly, cached (row-wise DP)"""
    cur = _rows.get(a)
    if cur is not None and len(cur) > upto:
        return cur
    if a == 0:
        r = [1] + [0] * upto
    else:
        prev = _row(a - 1, upto)
        r = [0] * (upto + 1)
        for j in range(1, upto + 1):
            r[j] = prev[j] + r[j - 1] + prev[j - 1]
    _rows[a] = r
    return r


def _V_small(a, b):
    """V(n,k) with min(n,k+1) small: uses symmetry U(n,k)=U(k,n)"""
    def U(n, k):
        x, y = (n, k) if n <= k else (k, n)
        return _row(x, 33000)[y]
    return U(a, b) + U(a, b + 1)


def r17_5(rep, prog):
    if 'fits_in32::maxN' not in prog.globals:
        return False
    maxN = flat_ints(prog.table('fits_in32::maxN'))
    maxK = flat_ints(prog.table('fits_in32::maxK'))
    loc = prog.glob('fits_in32::maxN')['loc']
    bad = None
    LIM = 32767
    # fits_in32(n,k): n<14 -> k<=maxK[n];  n>=14,k<14 -> n<=maxN[k]
    for n in range(len(maxK)):
        k = 0
        while k < LIM and _V_small(n, k + 1) < (1 << 32):
            k += 1
        if maxK[n] != k:
            bad = 'maxK[%d]=%d, exact frontier (largest k with V(%d,k)<2^32, cap 32767) is %d' % (n, maxK[n], n, k)
    for k in range(len(maxN)):
        n = 0
        while n < LIM and _V_small(n + 1, k) < (1 << 32):
            n += 1
        if maxN[k] != n:
            bad = 'maxN[%d]=%d, exact frontier (largest n with V(n,%d)<2^32, cap 32767) is %d' % (k, maxN[k], k, n)
    if bad:
        rep.violated('R17.5', '%s:fits_in32 frontier' % prog.config, loc, bad, key='fits_in32')
    else:
        rep.holds('R17.5', '%s:fits_in32 frontier' % prog.config, loc, 'maxN/maxK (%d+%d entries) equal the exact V<2^32 frontier' % (len(maxN), len(maxK)))
    return True


CONFIGS = {'quick': ['float'], 'thorough': ['float', 'fixed', 'custom']}


def setup(rep, tier):
    rep.minimum('R17.1', 78)
    rep.minimum('R17.2', 20)
    rep.minimum('R17.3', 20)
    rep.minimum('R17.4', 3)
    rep.minimum('R17.6', 1)
    rep.minimum('R17.7', 4)
    rep.minimum('R17.8', 6)
    rep.minimum('R17.9', 1)
    rep.minimum('R17.10', 1)
    rep.minimum('R17.11', 1)
    if tier == 'thorough':
        rep.minimum('R17.5', 1)
    rep.trusted.append('python port of log2_frac (celt/cwrs.c) used as the generator oracle for the pulse cache; exact integer recurrence for U')


# ------------------------------------------------------------------ R17.6
def r17_6(rep, prog):
    """a Laplace encoder that clamps the magnitude to what the tail of the distribution can represent must
    report the clamped value back: the store through the in/out `value` parameter depends (through the
    definitions of the locals it reads) on the result of the clamp `IMIN(val - i, ndi_max - 1)`.  If it does not,
    the caller keeps the unclamped value while the decoder reconstructs the clamped one, and the energy
    predictors of encoder and decoder drift apart."""
    from .. import decide
    n = 0
    for f in prog.functions_all:
        if not f.file.endswith('laplace.c') or 'encode' not in f.name:
            continue
        outs = []
        for x in f.all_nodes():
            if x[0] == 'assign' and sx.kind(sx.strip(x[1])) == 'deref' and sx.kind(sx.strip(sx.strip(x[1])[1])) == 'param':
                outs.append(x)
        rep.functions.add(f.name)
        # locals assigned from a min(.,.) idiom
        clamps = set()
        for l in f.locals.values():
            for lv, r in decide.find_assign(f, l['name']):
                rr = sx.strip(r)
                if sx.kind(rr) == 'cond':
                    c = sx.strip(rr[1])
                    if sx.kind(c) == 'bin' and c[1] in ('<', '<=', '>', '>='):
                        clamps.add(l['id'])
        if not outs and clamps and any('*' in q['type'] and 'const' not in q['type'] and q['name'] == 'value' for q in f.params):
            n += 1
            rep.violated('R17.6', '%s:%s reports the clamped value back to its caller' % (prog.config, f.name), f.where(),
                         'the function clamps (%s) but never stores through its in/out `value` parameter: the caller keeps the unclamped value' % ', '.join(sorted(f.locals[c]['name'] for c in clamps)),
                         key=f.name + ':writeback')
        for x in outs:
            n += 1
            seen, work = set(), [y[2] for y in sx.walk(x[2]) if sx.kind(y) == 'local']
            while work:
                lid = work.pop()
                if lid in seen:
                    continue
                seen.add(lid)
                nm = f.locals[lid]['name'] if lid in f.locals else None
                for lv, r in (decide.find_assign(f, nm) if nm else []):
                    work += [y[2] for y in sx.walk(r) if sx.kind(y) == 'local']
            inst = '%s:%s reports the clamped value back to its caller' % (prog.config, f.name)
            where = '%s:%s' % (f.file, sx.line(x))
            if not clamps:
                rep.unresolved('R17.6', inst + ': no clamp found')
            elif seen & clamps:
                rep.holds('R17.6', inst, where, '`%s` depends on the clamp result `%s`' % (sx.show(x)[:50], ', '.join(sorted(f.locals[c]['name'] for c in seen & clamps))))
            else:
                rep.violated('R17.6', inst, where, '`%s` does not depend on the clamp (%s): beyond the representable tail the caller keeps a value the decoder cannot reconstruct' % (
                    sx.show(x)[:60], ', '.join(sorted(f.locals[c]['name'] for c in clamps))), key=f.name + ':writeback')
    return n


# ------------------------------------------------------------------ R17.9
def _run_region(f, order, env):
    """evaluate the assignments of an acyclic region (blocks in flow order) over an integer environment
    {sx.key(lvalue): int}; the ?: diamonds of IMIN/IMAX are evaluated as expressions.  Returns the environment,
    or None when a right-hand side cannot be evaluated."""
    from .. import decide
    env = dict(env)
    for b in order:
        for st in f.blocks[b]['stmts']:
            k = sx.kind(st)
            if k == 'assign':
                v = decide.ev3(st[2], env)
                lhs = st[1]
            elif k == 'cassign':
                a, c = decide.ev3(st[2], env), decide.ev3(st[3], env)
                if a is None or c is None:
                    return None
                v = decide.ev3(['bin', st[1], ['int', a], ['int', c]], env)
                lhs = st[2]
            else:
                continue
            if v is None:
                return None
            env[sx.key(sx.strip(lhs))] = v
    return env


def r17_9(rep, prog, tier):
    """the tail clamp of the Laplace encoder is exact.  Beyond the decaying part the remaining probability mass is tiled
    with minimum-probability slots that alternate between the two signs, and the decoder accepts every one of them.  The
    encoder's clamp must therefore stop at the LAST slot of the value's sign: the clamped interval lies inside the 15-bit
    range (no overlap past the top) and the next slot of the same sign would start at or beyond 32768 (no gap: otherwise
    the decoder can return a value that the encoder maps to a different one, and decode no longer inverts encode).
    Decided by evaluating the expressions of the tail branch, as extracted from the source, for every entry value of the
    cumulative frequency that the reserve of the decaying part allows and for both signs; the slot spacing and the
    reserve are read from the code (two unclamped evaluations; the `ft` expression of the first-frequency helper)."""
    from .. import decide, cfg as cfgm
    n = 0
    for f in prog.functions_all:
        if not f.file.endswith('laplace.c') or 'encode' not in f.name:
            continue
        clamp = None
        for bid, st in f.stmts():
            if sx.kind(st) == 'assign' and sx.kind(sx.strip(st[1])) == 'local':
                rr = sx.strip(st[2])
                if sx.kind(rr) == 'cond' and sx.kind(sx.strip(rr[1])) == 'bin' and sx.strip(rr[1])[1] in ('<', '<=', '>', '>='):
                    clamp = (bid, st)
                    break
        if clamp is None:
            continue
        cf = cfgm.CFG(f)
        inst = '%s:%s tail clamp stops at the last slot of each sign' % (prog.config, f.name)
        # the branch that holds the clamp: nearest guard that is an if over a plain variable test
        g = [x for x in cfgm.guards_of(cf, clamp[0]) if f.blocks[x[2]].get('term', {}).get('kind') == 'IfStmt']
        if not g:
            rep.unresolved('R17.9', inst + ': the clamp is not inside a conditional branch'); n += 1
            continue
        cond, pol, gb = g[0]
        start = [s for s, p_ in cf.edges(gb) if p_ == pol][0]
        join = cf.ipdom.get(gb)
        region = sorted((cf.reachable_from(start, avoid=(join,)) | {start}) - {join}, reverse=True)
        if any(h in region for h, _, _ in cf.natural_loops()):
            rep.unresolved('R17.9', inst + ': tail branch contains a loop'); n += 1
            continue
        where = '%s:%s' % (f.file, sx.line(clamp[1]))
        # names: the mask s (R17.7 definition), the magnitude and position locals read by the clamp, fl = the local
        # updated by a compound assignment in the region, the interval width = param assigned in the region
        masks = [sx.strip(x[1]) for x in f.all_nodes() if x[0] == 'assign' and sx.kind(sx.strip(x[1])) == 'local' and _is_mask_def(x[2])]
        cum = [sx.strip(st[2]) for b in region for st in f.blocks[b]['stmts'] if sx.kind(st) == 'cassign' and sx.kind(sx.strip(st[2])) == 'local']
        wid = [sx.strip(st[1]) for b in region for st in f.blocks[b]['stmts'] if sx.kind(st) == 'assign' and sx.kind(sx.strip(st[1])) == 'param']
        out = [st for b in region for st in f.blocks[b]['stmts'] if sx.kind(st) == 'assign' and sx.kind(sx.strip(st[1])) == 'deref']
        mag = sx.strip(sx.strip(clamp[1][2])[2])        # val - i
        if not (len(masks) == 1 and len(cum) == 1 and len(wid) == 1 and sx.kind(mag) == 'bin' and mag[1] == '-'):
            rep.unresolved('R17.9', inst + ': tail branch does not have the expected roles (mask %d, cumulative %d, width %d)' % (len(masks), len(cum), len(wid))); n += 1
            continue
        ks, kfl, kw, kval, ki = sx.key(masks[0]), sx.key(cum[0]), sx.key(wid[0]), sx.key(sx.strip(mag[2])), sx.key(sx.strip(mag[3]))
        # reserve of the decaying part: ft at fs0 = 0 in the first-frequency helper
        reserve = None
        for h in prog.functions_all:
            if h.file == f.file and 'freq' in h.name and h.params:
                for x in h.all_nodes():
                    if x[0] == 'assign' and sx.kind(sx.strip(x[1])) == 'local':
                        v = decide.ev3(x[2], {sx.key(['param', 0, h.params[0]['name']]): 0})
                        if isinstance(v, int) and 0 < v < 32768:
                            reserve = 32768 - v
        if reserve is None:
            rep.unresolved('R17.9', inst + ': reserve of the decaying part not found in the first-frequency helper'); n += 1
            continue
        I0 = 7

        def tail(fl0, s, d):
            return _run_region(f, region, {ks: s, kfl: fl0, kw: 0, kval: I0 + d, ki: I0})
        e0, e1 = tail(0, 0, 0), tail(0, 0, 1)
        if e0 is None or e1 is None or e1[kfl] - e0[kfl] <= 0:
            rep.unresolved('R17.9', inst + ': tail branch cannot be evaluated'); n += 1
            continue
        D = e1[kfl] - e0[kfl]
        top = 32768 - reserve
        # quick tier: every entry frequency in the top 2048 and every 5th below (both parities); thorough: all of them
        dom = range(0, top + 1) if tier == 'thorough' else sorted(set(range(0, top + 1, 5)) | set(range(max(0, top - 2048), top + 1)))
        bad = None
        cnt = 0
        for fl0 in dom:
            for s in (0, -1):
                base = tail(fl0, s, 0)
                e = tail(fl0, s, 1 << 20)
                if e is None or base is None:
                    bad = 'fl=%d s=%d: not evaluable' % (fl0, s); break
                lo, w = e[kfl], e[kw]
                cnt += 1
                if w <= 0 or lo + w > 32768 or lo < fl0:
                    bad = 'fl=%d, sign mask %d: the clamped interval [%d,%d) is empty or leaves the 15-bit range' % (fl0, s, lo, lo + w); break
                if lo + D < 32768:
                    bad = ('fl=%d, sign mask %d: the clamp stops at [%d,%d) although the slot [%d,%d) of the same sign is still inside the range - '
                           'the decoder returns that value, the encoder can never produce it' % (fl0, s, lo, lo + w, lo + D, lo + D + 1)); break
                if out:
                    v = decide.ev3(out[0][2], e)
                    want = I0 + (lo - base[kfl]) // D
                    if v is None or v != (-want if s else want):
                        bad = 'fl=%d, sign mask %d: value written back %s, slot reached is %d' % (fl0, s, v, -want if s else want); break
            if bad:
                break
        n += 1
        rep.functions.add(f.name)
        if bad:
            rep.violated('R17.9', inst, where, bad, key=f.name + ':tail-clamp')
        else:
            rep.holds('R17.9', inst, where, '%d (entry frequency, sign) pairs: entry frequency 0..%d (reserve %d read from the helper), slot spacing %d; last slot inside the range, next slot of the sign outside, write-back equals the slot reached' % (cnt, 32768 - reserve, reserve, D), n=cnt)
    return n


# ------------------------------------------------------------------ R17.10
def r17_10(rep, prog):
    """escape-coded magnitudes are prefix-free: a decoder that keeps reading symbols from a table while the symbol equals
    an escape value K (`do v = dec(table) while (v == K)`) is matched by an encoder whose every emission to that table is
    the escape value exactly when another emission follows.  Per emission site of the encoder and per magnitude in
    0..6K that the branch facts at the site allow: the symbol expression is evaluated, the statements up to the next
    decisions are evaluated, and the successor reached is classified from the CFG (every path emits again / no path does).
    `symbol == K` must equal `another emission follows`: a final escape symbol makes the codeword a proper prefix of its
    neighbours, a non-final non-escape symbol ends the decoder's loop early."""
    from .. import decide, cfg as cfgm, templates as T
    n = 0
    for f in prog.functions_all:
        if not f.file.endswith('laplace.c') or 'encode' not in f.name:
            continue
        dname = f.name.replace('encode', 'decode')
        if not prog.has_fn(dname):
            continue
        d = prog.fn(dname)
        # decoder: loop condition `v == K` on a local assigned from a table decode call
        dloc = set()
        for x in d.all_nodes():
            if x[0] == 'assign' and sx.kind(sx.strip(x[1])) == 'local' and sx.kind(sx.strip(x[2])) == 'call' and 'icdf' in (sx.callee_name(sx.strip(x[2])) or ''):
                dloc.add(sx.key(sx.strip(x[1])))
        dcf = cfgm.CFG(d)
        K = None
        for h, latch, body in dcf.natural_loops():
            for b in body:
                c = dcf.cond(b)
                if c is not None:
                    c = sx.strip(c)
                    if sx.kind(c) == 'bin' and c[1] == '==' and sx.key(sx.strip(c[2])) in dloc and sx.int_val(sx.strip(c[3])) is not None:
                        K = sx.int_val(sx.strip(c[3]))
        if K is None:
            continue
        vpar = [i for i, q in enumerate(f.params) if 'int' in q['type'] and '*' not in q['type'] and q['name'] == 'value']
        if not vpar:
            continue
        cf = cfgm.CFG(f)
        kv = None
        sites = []
        for b, i, c in cf.find(lambda x: x[0] == 'call' and 'icdf' in (sx.callee_name(x) or '') and len(x[2]) >= 3):
            sym = c[2][1]
            tab = sx.lvalue_root(c[2][2])
            sites.append((b, i, c, sym, sx.key(tab) if isinstance(tab, list) else str(tab)))
        valkeys = set(sx.key(y) for _, _, _, sym, _ in sites for y in sx.walk(sym) if sx.kind(y) == 'param' and y[1] == vpar[0])
        if not valkeys:
            continue
        kv = list(valkeys)[0]
        tabs = set(t for _, _, _, sym, t in sites if any(sx.key(y) == kv for y in sx.walk(sym)))
        sites = [s_ for s_ in sites if s_[4] in tabs]
        eblocks = set(s_[0] for s_ in sites)

        def never(x):
            return x not in eblocks and not (cf.reachable_from(x) & eblocks)

        def must(x):
            return x in eblocks or (cf.exit not in cf.reachable_from(x, avoid=tuple(eblocks)) and x != cf.exit)

        def follows(b, i, v):
            env = {kv: v}
            for _ in range(8):
                blk = f.blocks[b]
                for j, st in enumerate(blk['stmts']):
                    if j <= i:
                        continue
                    if any(s_[0] == b and s_[1] == j for s_ in sites):
                        return True
                    k = sx.kind(st)
                    if k in ('assign', 'cassign'):
                        env2 = dict(env)
                        if k == 'assign' and sx.key(sx.strip(st[1])) == kv:
                            r = decide.ev3(st[2], env)
                            if r is None:
                                return None
                            env2[kv] = r
                        elif k == 'cassign' and sx.key(sx.strip(st[2])) == kv:
                            r = decide.ev3(['bin', st[1], ['int', env[kv]], st[3]], env)
                            if r is None:
                                return None
                            env2[kv] = r
                        env = env2
                    elif k == 'inc' and sx.key(sx.strip(st[3])) == kv:
                        env = {kv: env[kv] + (1 if '+' in str(st[1]) else -1)}
                es = cf.edges(b)
                c = cf.cond(b)
                nxt = None
                if c is not None and len(es) == 2 and es[0][1] is not None:
                    r = decide.ev3(c, env)
                    if r is None:
                        return None
                    nxt = [s_ for s_, pol in es if pol == bool(r)]
                    nxt = nxt[0] if nxt else None
                elif len(es) == 1:
                    nxt = es[0][0]
                if nxt is None:
                    return False
                if never(nxt):
                    return False
                if must(nxt) and nxt not in eblocks:
                    return True
                if nxt in eblocks:
                    # emission inside the block: is it reached before any decision? it is a statement of the block
                    return True
                b, i = nxt, -1
            return None

        def allowed(b, i, v):
            for a in T.stable_facts(cf, b, i):
                if len(a) == 3 and a[1] == kv and isinstance(a[2], tuple) and a[2][0] == 'int':
                    r = decide.ev3(['bin', a[0], ['int', v], ['int', a[2][1]]], {})
                    if r == 0:
                        return False
                if len(a) == 3 and a[2] == kv and isinstance(a[1], tuple) and a[1][0] == 'int':
                    r = decide.ev3(['bin', a[0], ['int', a[1][1]], ['int', v]], {})
                    if r == 0:
                        return False
            return True

        for b, i, c, sym, t in sites:
            n += 1
            inst = '%s:%s line %s emits the escape symbol %d exactly when another symbol follows' % (prog.config, f.name, sx.line(c), K)
            where = '%s:%s' % (f.file, sx.line(c))
            bad = None
            cnt = 0
            for v in range(0, 6 * K + 1):
                if not allowed(b, i, v):
                    continue
                sv = decide.ev3(sym, {kv: v})
                more = follows(b, i, v)
                if sv is None or more is None:
                    bad = ('unresolved', 'value %d: symbol or continuation not evaluable' % v)
                    break
                cnt += 1
                if (sv == K) != bool(more):
                    bad = ('violated', 'remaining magnitude %d: the symbol emitted is %d and %s - the decoder (%s) %s' % (
                        v, sv, 'no further symbol is written' if not more else 'another symbol is written', dname,
                        'keeps reading after an escape that was the last symbol, so this codeword is a prefix of its neighbours' if not more else 'stops at the first non-escape symbol and leaves the rest in the stream'))
                    break
            rep.functions.add(f.name)
            if bad is None:
                rep.holds('R17.10', inst, where, '%d magnitudes; escape value %d read from the loop condition of %s' % (cnt, K, dname), n=cnt)
            elif bad[0] == 'unresolved':
                rep.unresolved('R17.10', inst + ': ' + bad[1])
            else:
                rep.violated('R17.10', inst, where, bad[1], key='%s:escape:%s' % (f.name, sx.show(sym)[:30]))
    return n


# ------------------------------------------------------------------ R17.11
def r17_11(rep, prog):
    """symbol re-mapping around a shared table is a bijection: where the encoder passes an expression of one variable
    (`2*qi ^ -(qi<0)`, a zig-zag map) as the symbol for a constant table and the decoder re-maps the symbol it read from
    the same table in the next statement (`qi = (qi>>1) ^ -(qi&1)`), the two maps are inverse on every symbol of the table:
    enc(dec(s)) == s for s in 0..len-1, and the values dec produces are pairwise different.  Both expressions are read
    from the source and evaluated over the table's finite symbol set."""
    from .. import decide
    enc, dec = {}, {}
    for f in prog.functions_all:
        if not f.file.startswith('celt/'):
            continue
        for bid in f.blocks:
            sts = f.blocks[bid]['stmts']
            for j, st in enumerate(sts):
                for x in sx.walk(st):
                    if x[0] != 'call':
                        continue
                    cn = sx.callee_name(x) or ''
                    if cn.startswith('ec_enc_icdf') and len(x[2]) >= 3:
                        t = sx.lvalue_root(x[2][2])
                        t = t[0] if isinstance(t, tuple) else t
                        vs = set(sx.key(y) for y in sx.walk(x[2][1]) if sx.kind(y) in ('local', 'param'))
                        if isinstance(t, list) and sx.kind(t) == 'global' and len(vs) == 1 and sx.kind(sx.strip(x[2][1])) not in ('local', 'param'):
                            enc.setdefault(t[1], []).append((f, sx.line(x), x[2][1], list(vs)[0]))
                if sx.kind(st) == 'assign' and sx.kind(sx.strip(st[1])) == 'local' and sx.kind(sx.strip(st[2])) == 'call' and (sx.callee_name(sx.strip(st[2])) or '').startswith('ec_dec_icdf'):
                    c = sx.strip(st[2])
                    t = sx.lvalue_root(c[2][1]) if len(c[2]) >= 2 else None
                    t = t[0] if isinstance(t, tuple) else t
                    if isinstance(t, list) and sx.kind(t) == 'global':
                        # the statement that follows in every execution: next in the block, or first of the join block when
                        # the re-mapping is written with ?: (its arms are separate, empty blocks)
                        rest, bb = sts[j + 1:], bid
                        cfx = cfgm.CFG(f)
                        for _ in range(3):
                            if rest:
                                break
                            bb = cfx.ipdom.get(bb)
                            if bb is None:
                                break
                            rest = f.blocks[bb]['stmts']
                        if not rest:
                            continue
                        nx = rest[0]
                        k = sx.key(sx.strip(st[1]))
                        if sx.kind(nx) == 'assign' and sx.key(sx.strip(nx[1])) == k and any(sx.key(y) == k for y in sx.walk(nx[2])):
                            dec.setdefault(t[1], []).append((f, sx.line(nx), nx[2], k))
    n = 0
    for tname in sorted(set(enc) & set(dec)):
        try:
            vals = list(flatten(prog.glob(tname)['init']))
        except Exception:
            vals = None
        if not vals:
            continue
        for ef, el, ee, ek in enc[tname]:
            for df, dl, de, dk in dec[tname]:
                n += 1
                inst = '%s:%s symbol maps of %s (line %s) and %s (line %s) are inverse' % (prog.config, tname, ef.name, el, df.name, dl)
                where = '%s:%s' % (df.file, dl)
                bad = None
                seen = {}
                for s_ in range(len(vals)):
                    v = decide.ev3(de, {dk: s_})
                    back = decide.ev3(ee, {ek: v}) if v is not None else None
                    if v is None or back is None:
                        bad = ('unresolved', 'symbol %d not evaluable' % s_)
                        break
                    if back != s_:
                        bad = ('violated', 'symbol %d is decoded to %d, which the encoder writes as symbol %d' % (s_, v, back))
                        break
                    if v in seen:
                        bad = ('violated', 'symbols %d and %d both decode to %d' % (seen[v], s_, v))
                        break
                    seen[v] = s_
                rep.functions.add(df.name)
                if bad is None:
                    rep.holds('R17.11', inst, where, '%d symbols: decoded values %s' % (len(vals), sorted(seen)))
                elif bad[0] == 'unresolved':
                    rep.unresolved('R17.11', inst + ': ' + bad[1])
                else:
                    rep.violated('R17.11', inst, where, bad[1], key='%s:symbol-map' % tname)
    return n


# ------------------------------------------------------------------ R17.7
def _is_mask_def(r):
    r = sx.strip(r)
    return sx.kind(r) == 'un' and r[1] == '-' and sx.kind(sx.strip(r[2])) == 'bin' and sx.strip(r[2])[1] in ('<', '>', '<=', '>=', '!=', '==')


def r17_7(rep, prog):
    """conditional negation through a sign mask: with s = -(cond) in {0, -1}, (x + s) ^ s is x or -x, while x ^ s alone is
    x or -x-1.  Every XOR with such a mask in the entropy-coding layer (PVQ index decoding, Laplace coding) must therefore
    have the mask added to its other operand first.  A write-back or a decoded pulse that drops the `+ s` is off by one for
    negative values only - which the decoder's sign handling does not share."""
    n = 0
    for f in prog.functions_all:
        if not f.file.startswith('celt/'):
            continue
        masks = set()
        for x in f.all_nodes():
            if x[0] == 'assign' and sx.kind(sx.strip(x[1])) == 'local' and _is_mask_def(x[2]):
                masks.add(sx.strip(x[1])[2])
            if sx.kind(x) == 'decls':
                for d in x[1]:
                    if d[0] == 'decl' and d[3] is not None and _is_mask_def(d[3]):
                        masks.add(d[2])
        if not masks:
            continue
        seen = set()
        for x in f.all_nodes():
            if sx.kind(x) != 'bin' or x[1] != '^':
                continue
            for a, b in ((x[2], x[3]), (x[3], x[2])):
                m = sx.strip(b)
                if not (sx.kind(m) == 'local' and m[2] in masks):
                    continue
                txt = sx.show(x)
                if txt in seen:
                    continue
                seen.add(txt)
                n += 1
                rep.functions.add(f.name)
                e = sx.strip(a)
                ok = sx.kind(e) == 'bin' and e[1] == '+' and any(sx.kind(sx.strip(y)) == 'local' and sx.strip(y)[2] == m[2] for y in (e[2], e[3]))
                inst = '%s:%s negates through the sign mask completely: `%s`' % (prog.config, f.name, txt[:50])
                where = '%s:%s' % (f.file, sx.line(x) or f.line)
                if ok:
                    rep.holds('R17.7', inst, where, '(x + s) ^ s')
                else:
                    rep.violated('R17.7', inst, where, 'XOR with the sign mask `%s` without adding the mask first: the result is -x-1 instead of -x for negative values' % m[1], key='%s:mask-negate:%s' % (f.name, txt[:30].replace(' ', '')))
    return n


# ------------------------------------------------------------------ R17.8
def r17_8(rep, prog):
    """half-open interval convention of the PVQ index decoder: a vector with at least k pulses in the current dimension has
    an index i with U(n,k) <= i, so every comparison between the running index and a table value in the index decoder
    is the predicate `U <= i` or its negation (`q > i`, `i >= p`, `p <= i`, `i < q`).  `U < i` / `U >= i` differs from it
    exactly when the index sits on a boundary, and sends that index to the neighbouring vector."""
    n = 0
    for f in prog.functions_all:
        if f.file != 'celt/cwrs.c':
            continue
        idx = [k for k, q in enumerate(f.params) if 'uint32' in q.get('type', '') and '*' not in q.get('type', '')]
        if not idx:
            continue
        if not any(q.get('type', '').replace(' ', '') in ('int*',) for q in f.params):
            continue                       # the decoder writes pulses through an int* output
        for k in idx:
            pk = ('param', k)
            seen = set()
            for x in f.all_nodes():
                if sx.kind(x) != 'bin' or x[1] not in ('<', '<=', '>', '>='):
                    continue
                a, b = sx.strip(x[2]), sx.strip(x[3])
                if sx.key(a) == pk and sx.int_val(b) is None:
                    op = x[1]                                   # i OP tbl
                    ok = op in ('>=', '<')                      # i >= U  /  i < U
                elif sx.key(b) == pk and sx.int_val(a) is None:
                    op = x[1]                                   # tbl OP i
                    ok = op in ('<=', '>')                      # U <= i  /  U > i
                else:
                    continue
                txt = sx.show(x)
                if txt in seen:
                    continue
                seen.add(txt)
                n += 1
                rep.functions.add(f.name)
                inst = '%s:%s compares the index with a table value as `U <= i` or its negation: `%s`' % (prog.config, f.name, txt[:30])
                where = '%s:%s' % (f.file, sx.line(x) or f.line)
                if ok:
                    rep.holds('R17.8', inst, where, None)
                else:
                    rep.violated('R17.8', inst, where, 'this comparison differs from the half-open convention exactly when the index equals the table value: that index decodes to the neighbouring pulse vector, while the encoder (icwrs) still assigns it to the other one',
                                 key='%s:boundary:%s' % (f.name, txt[:24].replace(' ', '')))
    return n


def check(rep, prog, tier):
    r17_8(rep, prog)
    r17_7(rep, prog)
    r17_6(rep, prog)
    r17_9(rep, prog, tier)
    r17_10(rep, prog)
    r17_11(rep, prog)
    pt = PointsTo(prog)
    r17_1(rep, prog, pt)
    if 'CELT_PVQ_U_DATA' in prog.globals:
        r17_23(rep, prog)
    else:
        rep.unresolved('R17.2', 'CELT_PVQ_U_DATA not found in %s' % prog.config)
    r17_4(rep, prog)
    r17_5(rep, prog)
