"""C08 — range coder: buffer ownership, guarded byte access, bit accounting.

R08.1 only the range coder's own writers store into the coder buffer
      (who-may-write by points-to on the memory ec_ctx.buf points to), plus
      three frozen save/restore sites that copy back bytes they saved.
R08.2 every write/read of the buffer inside the coder is guarded by the
      offs/end_offs/storage test, reads return 0 when exhausted.
R08.3 encoder and decoder keep the same bit accounting: identical updates of
      nbits_total and rng in the normalise loops and in ec_{enc,dec}_bits, the
      same uint split, and the same initial (rng, nbits_total).
"""
from .. import sx, cfg as cfgm, guards, templates as T, absint, decide
from ..guards import I
from ..pts import PointsTo
from ..compdb import AnalysisBroken

EXPLANATION = (
    'Decided: R08.1 stores whose target may be the memory ec_ctx.buf points to occur only in the coder\'s five writers '
    '(ec_write_byte, ec_write_byte_at_end, ec_enc_patch_initial_bits, ec_enc_shrink, ec_enc_done) and in four frozen '
    'save/restore sites (SILK rate loop FLP/FIX, CELT theta-RDO, CELT coarse-energy two-pass) that restore bytes they saved; in the decoder the '
    'buffer is read only by ec_read_byte / ec_read_byte_from_end. R08.2 each of those accesses is dominated by the '
    'offs/end_offs/storage test (writers return -1, readers yield 0). R08.3 ec_enc_normalize/ec_dec_normalize and '
    'ec_enc_bits/ec_dec_bits update nbits_total and rng identically, the uint coders split at the same EC_UINT_BITS, '
    'every update of rng is followed by a normalise call, and ec_dec_init reaches the encoder\'s initial '
    '(rng, nbits_total) = (2^31, 33). '
    'R08.5 ec_enc_shrink moves the raw-bit tail from the old end (entry value of storage) to the new end and then updates storage; R08.6 ec_enc_done takes an extra terminator bit exactly when (end|msk) >= val+rng (half-open intervals). '
    'NOT decided: decode(encode(x)) = x, monotonicity of ec_tell_frac, "finishing cannot fail" - run-time theorems.')

CONFIGS = {'quick': ['float'], 'thorough': ['float', 'fixed']}

WRITERS = {'ec_write_byte', 'ec_write_byte_at_end', 'ec_enc_patch_initial_bits', 'ec_enc_shrink', 'ec_enc_done'}
READERS = {'ec_read_byte', 'ec_read_byte_from_end'}
# external writers of coder bytes: must restore what they saved (function -> reason)
FROZEN_WRITERS = {
    'silk_encode_frame_FLP': 'rate-control loop: restores the bytes it copied from the same buffer (ec_buf_copy, length = saved offs)',
    'silk_encode_frame_FIX': 'rate-control loop: restores the bytes it copied from the same buffer (ec_buf_copy, length = saved offs)',
    'quant_coarse_energy': 'two-pass intra/inter decision: restores intra_bits copied from the same buffer range (nintra_bytes-nstart_bytes)',
    'quant_all_bands': 'theta RDO: restores bytes_save copied from ec_save.buf+offs (length storage-offs)',
}


def setup(rep, tier):
    rep.minimum('R08.1', 8)
    rep.minimum('R08.2', 7)
    rep.minimum('R08.3', 8)
    rep.minimum('R08.5', 3)
    rep.minimum('R08.6', 2)
    rep.minimum('R08.7', 1)
    rep.minimum('R08.8', 1)
    rep.minimum('R08.9', 1)


def r08_1(rep, prog):
    pt = PointsTo(prog, track_fields=[('ec_ctx', 'buf')])
    OBJ = 'F:ec_ctx.buf'
    writers = {}
    nstores = 0
    for f in prog.functions_all:
        for lv, node, how in pt.stores(f):
            nstores += 1
            if OBJ in pt.objs(f, lv):
                writers.setdefault(f.name, []).append((f, node, how))
    rep.count(nstores)
    for name, lst in sorted(writers.items()):
        f = lst[0][0]
        rep.functions.add(name)
        inst = '%s:%s writes the coder buffer (%d sites)' % (prog.config, name, len(lst))
        where = '%s:%s' % (f.file, sx.line(lst[0][1]))
        if name in WRITERS:
            rep.holds('R08.1', inst, where, 'range coder writer')
        elif name in FROZEN_WRITERS:
            # restore discipline: the destination is ...->buf (+offs) and the source is a local array filled from the same buffer
            ok = True
            detail = []
            for f_, node, how in lst:
                if node[0] != 'call' or not how.startswith('extern:mem'):
                    ok = False
                    detail.append('store `%s` is not a block restore' % sx.show(node)[:50])
                    continue
                src = sx.strip(node[2][1])
                r, _ = sx.lvalue_root(src)
                saved = False
                for m in f_.calls():
                    if sx.callee_name(m) in ('memcpy', '__builtin_memcpy', '__memcpy_chk', '__builtin___memcpy_chk') and m is not node:
                        r2, _ = sx.lvalue_root(sx.strip(m[2][0]))
                        if sx.key(r2) == sx.key(r) and OBJ in pt.pts(f_, m[2][1]):
                            saved = True
                if not saved:
                    ok = False
                    detail.append('restore source %s is not filled from the coder buffer' % sx.show(src)[:30])
            if ok:
                rep.holds('R08.1', inst + ' (frozen exception)', where, FROZEN_WRITERS[name])
            else:
                rep.violated('R08.1', inst, where, '; '.join(detail), key='restore:' + name)
        else:
            for f_, node, how in lst:
                rep.violated('R08.1', '%s:%s writes the coder buffer' % (prog.config, name), '%s:%s' % (f_.file, sx.line(node)),
                             'store `%s` may target the memory ec_ctx.buf points to; only the range coder may write it' % sx.show(node)[:60], key='writer:' + name)
    missing = WRITERS - set(writers)
    if missing:
        rep.unresolved('R08.1', 'expected range-coder writers not found: %s' % sorted(missing))
    # decoder-side reads of the buffer
    readers = {}
    for f in prog.functions_all:
        if f.file not in ('celt/entdec.c',):
            continue
        for n in f.all_nodes():
            if n[0] in ('idx', 'deref') and OBJ in pt.pts(f, n[1]) and sx.A(n).get('t') == 's':
                readers.setdefault(f.name, []).append(n)
    for name, lst in sorted(readers.items()):
        f = prog.fn(name)
        if name in READERS:
            rep.holds('R08.1', '%s:%s reads the decoder buffer' % (prog.config, name), f.where(), '%d read(s)' % len(lst))
        else:
            rep.violated('R08.1', '%s:%s reads the decoder buffer' % (prog.config, name), '%s:%s' % (f.file, sx.line(lst[0])),
                         'packet bytes are read outside ec_read_byte / ec_read_byte_from_end: `%s`' % sx.show(lst[0])[:50], key='reader:' + name)
    if set(readers) != READERS:
        if READERS - set(readers):
            rep.unresolved('R08.1', 'decoder readers not found: %s' % sorted(READERS - set(readers)))


def _this(f):
    return ('param', 0)


def r08_2(rep, prog):
    # writers: store dominated by offs+end_offs < storage, failing edge returns -1
    for name in ('ec_write_byte', 'ec_write_byte_at_end'):
        f = prog.fn(name)
        rep.functions.add(name)
        cf = cfgm.CFG(f)
        th = _this(f)
        sinks = T.stores_where(cf, lambda lv, n: sx.kind(lv) == 'idx')
        req = ('<', ('bin', '+', ('field', th, 'offs'), ('field', th, 'end_offs')), ('field', th, 'storage'))
        for b, i, n in sinks:
            known = [a for a, gb in guards.facts_at(cf, b)]
            act = None
            for cond, pol, gb in cfgm.guards_of(cf, b):
                if req in guards.atoms(cond, pol):
                    act = T.failing_edge_action(cf, gb, pol)
            ok = req in known and act == ('return', -1)
            (rep.holds if ok else rep.violated)('R08.2', '%s:%s store guarded by offs+end_offs<storage' % (prog.config, name), '%s:%s' % (f.file, sx.line(n)),
                                                'full buffer -> return -1' if ok else 'known %s, failing action %s' % ([T.show_atom(a) for a in known], act),
                                                **({} if ok else {'key': name}))
        if not sinks:
            rep.unresolved('R08.2', 'no buffer store in %s' % name)
    # readers: cond ? buf[..] : 0 on offs<storage / end_offs<storage
    for name, fld in (('ec_read_byte', 'offs'), ('ec_read_byte_from_end', 'end_offs')):
        f = prog.fn(name)
        rep.functions.add(name)
        th = _this(f)
        rets = [n for n in f.all_nodes() if n[0] == 'ret']
        ok = False
        detail = 'return expression is not `(%s < storage) ? buf[...] : 0`' % fld
        if len(rets) == 1 and rets[0][1] is not None:
            e = sx.strip(rets[0][1])
            if sx.kind(e) == 'cond':
                at = guards.atoms(e[1], True)
                reads_t = [m for m in sx.walk(e[2]) if m[0] in ('idx', 'deref') and sx.A(m).get('t') == 's']
                reads_f = [m for m in sx.walk(e[3]) if m[0] in ('idx', 'deref')]
                ok = at == [('<', ('field', th, fld), ('field', th, 'storage'))] and len(reads_t) == 1 and not reads_f and sx.int_val(e[3]) == 0
        (rep.holds if ok else rep.violated)('R08.2', '%s:%s reads under %s<storage, else 0' % (prog.config, name, fld), f.where(), None if ok else detail, **({} if ok else {'key': name}))
    # patch_initial_bits: buf[0] only when offs>0
    f = prog.fn('ec_enc_patch_initial_bits')
    rep.functions.add(f.name)
    cf = cfgm.CFG(f)
    th = _this(f)
    T.t_guard(rep, 'R08.2', f, cf, T.stores_where(cf, lambda lv, n: sx.kind(lv) == 'idx'), [('offs>0', ('<', I(0), ('field', th, 'offs')))], 'buf[0] store')
    # ec_enc_done: last-byte OR only when end_offs<storage; clear only when !error
    f = prog.fn('ec_enc_done')
    rep.functions.add(f.name)
    cf = cfgm.CFG(f)
    T.t_guard(rep, 'R08.2', f, cf, T.stores_where(cf, lambda lv, n: sx.kind(lv) == 'idx'),
              [('end_offs<storage', ('<', ('field', th, 'end_offs'), ('field', th, 'storage')))], 'last-byte store')
    clears = T.calls_to(cf, ('memset', '__builtin_memset', '__memset_chk', '__builtin___memset_chk'))
    T.t_guard(rep, 'R08.2', f, cf, clears, [('!error', ('==', ('field', th, 'error'), I(0)))], 'OPUS_CLEAR of the gap')
    for b, i, n in clears:
        ln = sx.show(n[2][2])
        ok = 'storage' in ln and 'offs' in ln and 'end_offs' in ln
        (rep.holds if ok else rep.violated)('R08.2', '%s:ec_enc_done clears exactly storage-offs-end_offs bytes' % prog.config, '%s:%s' % (f.file, sx.line(n)), ln[:80], **({} if ok else {'key': 'done-clear'}))


def _field_updates(f, fld):
    """normalised updates of _this-><fld> in f: list of (op, rhs-text)"""
    out = []
    for n in f.all_nodes():
        if n[0] == 'cassign' and sx.kind(sx.strip_paren(n[2])) == 'field' and sx.strip_paren(n[2])[3] == fld:
            out.append((n[1] + '=', sx.show(n[3])))
        elif n[0] == 'assign' and sx.kind(sx.strip_paren(n[1])) == 'field' and sx.strip_paren(n[1])[3] == fld:
            out.append(('=', sx.show(n[2])))
    return sorted(out)


def _int_const(e):
    return sx.int_val(e)


def r08_3(rep, prog):
    en, dn = prog.fn('ec_enc_normalize'), prog.fn('ec_dec_normalize')
    for f in (en, dn):
        rep.functions.add(f.name)
    # loop condition and the two updates
    def loop_cond(f):
        cf = cfgm.CFG(f)
        cs = [cf.cond(b) for b in cf.blocks if cf.cond(b) is not None and cf.blocks[b]['term']['kind'] == 'WhileStmt']
        return [sx.key(c) for c in cs]
    ce, cd = loop_cond(en), loop_cond(dn)
    ok = len(ce) == 1 and ce == cd
    (rep.holds if ok else rep.violated)('R08.3', '%s:normalise loops share the condition rng<=EC_CODE_BOT' % prog.config, en.where(), None if ok else 'enc %s dec %s' % (ce, cd), **({} if ok else {'key': 'norm-cond'}))
    for fld in ('nbits_total', 'rng'):
        ue, ud = _field_updates(en, fld), _field_updates(dn, fld)
        ok = ue == ud and len(ue) == 1
        (rep.holds if ok else rep.violated)('R08.3', '%s:normalise loops update %s identically' % (prog.config, fld), en.where(), '%s' % ue if ok else 'enc %s dec %s' % (ue, ud), **({} if ok else {'key': 'norm-' + fld}))
    eb, db = prog.fn('ec_enc_bits'), prog.fn('ec_dec_bits')
    ue, ud = _field_updates(eb, 'nbits_total'), _field_updates(db, 'nbits_total')
    ok = ue == ud and ue == [('+=', '_bits')]
    (rep.holds if ok else rep.violated)('R08.3', '%s:ec_enc_bits/ec_dec_bits account raw bits identically' % prog.config, eb.where(), str(ue) if ok else 'enc %s dec %s' % (ue, ud), **({} if ok else {'key': 'bits-nbits'}))
    # uint split
    eu, du = prog.fn('ec_enc_uint'), prog.fn('ec_dec_uint')

    def local_defs(f, name):
        out = []
        for n in f.all_nodes():
            if n[0] == 'assign' and sx.kind(n[1]) == 'local' and n[1][1] == name:
                out.append(sx.show(sx.nocast(n[2])))
            if n[0] == 'cassign' and sx.kind(n[2]) == 'local' and n[2][1] == name:
                out.append(n[1] + '=' + sx.show(sx.nocast(n[3])))
        return sorted(out)
    for v in ('ftb', 'ft'):
        a, b = local_defs(eu, v), local_defs(du, v)
        ok = a == b and a
        (rep.holds if ok else rep.violated)('R08.3', '%s:ec_enc_uint/ec_dec_uint derive %s identically' % (prog.config, v), eu.where(), str(a) if ok else 'enc %s dec %s' % (a, b), **({} if ok else {'key': 'uint-' + v}))
    # threshold EC_UINT_BITS in the branch
    def ubits(f):
        cf = cfgm.CFG(f)
        out = []
        for b in cf.blocks:
            c = cf.cond(b)
            if c is not None:
                for a in guards.atoms(c, True):
                    if a[0] == '<' and a[1][0] == 'int' and a[2][0] == 'local':
                        out.append(a[1][1])
        return out
    a, b = ubits(eu), ubits(du)
    ok = a == b and len(a) == 1
    (rep.holds if ok else rep.violated)('R08.3', '%s:ec_enc_uint/ec_dec_uint split at the same EC_UINT_BITS' % prog.config, eu.where(), str(a) if ok else 'enc %s dec %s' % (a, b), **({} if ok else {'key': 'uint-bits'}))
    # raw-bit counts passed to the bits coders agree (ftb)
    ea = [sx.show(c[2][2]) for c in eu.calls() if sx.callee_name(c) == 'ec_enc_bits']
    da = [sx.show(c[2][1]) for c in du.calls() if sx.callee_name(c) == 'ec_dec_bits']
    ok = ea == da == ['ftb']
    (rep.holds if ok else rep.violated)('R08.3', '%s:uint coders pass the same raw-bit count' % prog.config, eu.where(), None if ok else 'enc %s dec %s' % (ea, da), **({} if ok else {'key': 'uint-rawbits'}))
    # every coder operation that changes rng normalises afterwards
    pairs = [('ec_encode', 'ec_enc_normalize'), ('ec_encode_bin', 'ec_enc_normalize'), ('ec_enc_bit_logp', 'ec_enc_normalize'),
             ('ec_enc_icdf', 'ec_enc_normalize'), ('ec_dec_update', 'ec_dec_normalize'), ('ec_dec_bit_logp', 'ec_dec_normalize'),
             ('ec_dec_icdf', 'ec_dec_normalize')]
    if prog.has_fn('ec_enc_icdf16'):
        pairs += [('ec_enc_icdf16', 'ec_enc_normalize'), ('ec_dec_icdf16', 'ec_dec_normalize')]
    for fname, norm in pairs:
        f = prog.fn(fname)
        rep.functions.add(fname)
        cf = cfgm.CFG(f)
        stores = T.stores_where(cf, lambda lv, n: sx.kind(lv) == 'field' and lv[3] == 'rng')
        nb = {b for b, i, n in T.calls_to(cf, norm)}
        exits = {b for b, i, s in T.returns_of(cf)} | set(cf.pred[cf.exit])
        ok = bool(stores) and all(b in nb or cf.must_pass(b, exits - nb, nb) for b, i, n in stores)
        (rep.holds if ok else rep.violated)('R08.3', '%s:%s renormalises after updating rng' % (prog.config, fname), f.where(),
                                            '%d rng update(s), all followed by %s' % (len(stores), norm) if ok else 'an rng update can reach the return without %s' % norm,
                                            **({} if ok else {'key': 'renorm:' + fname}))
    # shift amounts used to scale the range agree per pair
    for efn, dfn, pname in (('ec_enc_bit_logp', 'ec_dec_bit_logp', '_logp'), ('ec_enc_icdf', 'ec_dec_icdf', '_ftb'), ('ec_encode_bin', 'ec_decode_bin', '_bits')):
        ef, df = prog.fn(efn), prog.fn(dfn)

        def shifts(f):
            out = set()
            for n in f.all_nodes():
                if n[0] == 'bin' and n[1] == '>>' and sx.kind(sx.strip(n[3])) == 'param':
                    out.add(sx.show(sx.strip(n[3])))
            return out
        a, b = shifts(ef), shifts(df)
        ok = a == b == {pname}
        (rep.holds if ok else rep.violated)('R08.3', '%s:%s/%s scale the range by the same shift' % (prog.config, efn, dfn), ef.where(), str(sorted(a)) if ok else 'enc %s dec %s' % (sorted(a), sorted(b)), **({} if ok else {'key': 'shift:' + efn}))
    # initial state: decoder init + normalise reaches the encoder's (rng, nbits_total)
    ei, di = prog.fn('ec_enc_init'), prog.fn('ec_dec_init')

    def const_store(f, fld):
        vals = [_int_const(n[2]) for n in f.all_nodes() if n[0] == 'assign' and sx.kind(sx.strip_paren(n[1])) == 'field' and sx.strip_paren(n[1])[3] == fld]
        return vals[0] if len(vals) == 1 else None
    e_rng, e_nb = const_store(ei, 'rng'), const_store(ei, 'nbits_total')
    d_rng, d_nb = const_store(di, 'rng'), const_store(di, 'nbits_total')
    # loop parameters from the decoder normalise: threshold, shift, increment
    cfd = cfgm.CFG(dn)
    thr = None
    for b in cfd.blocks:
        c = cfd.cond(b)
        if c is not None and sx.kind(c) == 'bin' and c[1] == '<=':
            thr = _int_const(c[3])
    sh = [_int_const(n[3]) for n in dn.all_nodes() if n[0] == 'cassign' and n[1] == '<<' and sx.strip_paren(n[2])[3] == 'rng']
    inc = [_int_const(n[3]) for n in dn.all_nodes() if n[0] == 'cassign' and n[1] == '+' and sx.strip_paren(n[2])[3] == 'nbits_total']
    calls_norm = any(sx.callee_name(c) == 'ec_dec_normalize' for c in di.calls())
    if None in (e_rng, e_nb, d_rng, d_nb, thr) or len(sh) != 1 or len(inc) != 1 or sh[0] is None or inc[0] is None:
        rep.unresolved('R08.3', 'cannot extract the constants of ec_enc_init / ec_dec_init / ec_dec_normalize')
    else:
        r, nb_, k = d_rng, d_nb, 0
        while r <= thr and k < 64:
            r <<= sh[0]
            nb_ += inc[0]
            k += 1
        ok = calls_norm and (r, nb_) == (e_rng, e_nb)
        (rep.holds if ok else rep.violated)('R08.3', '%s:decoder starts in the encoder\'s (rng, nbits_total)' % prog.config, di.where(),
                                            'dec init (%d, %d) --%d normalise steps--> (%d, %d); enc init (%d, %d)' % (d_rng, d_nb, k, r, nb_, e_rng, e_nb),
                                            **({} if ok else {'key': 'init-state'}))


def _fld(e, name):
    e = sx.strip(e)
    return sx.kind(e) == 'field' and e[3] == name


def r08_5(rep, prog):
    """ec_enc_shrink relocates the raw-bit tail from the OLD end of the buffer
    to the NEW end: the move's source is addressed with the storage value the
    function was entered with, the destination with the new size, and storage
    is updated on every path afterwards."""
    f = prog.fn('ec_enc_shrink')
    rep.functions.add(f.name)
    cf = cfgm.CFG(f)
    psz = f.param_index('_size')
    moves = T.calls_to(cf, ('memmove', '__builtin_memmove', '__builtin___memmove_chk', '__memmove_chk'))
    if len(moves) != 1 or psz is None:
        rep.unresolved('R08.5', 'ec_enc_shrink: expected exactly one memmove and a _size parameter (found %d)' % len(moves), f.where())
        return
    mb, mi, mv = moves[0]
    dst, src = mv[2][0], mv[2][1]
    where = '%s:%s' % (f.file, sx.line(mv))
    src_reads_storage = any(_fld(n, 'storage') for n in sx.walk(src))
    dst_reads_size = any(sx.key(n) == ('param', psz) for n in sx.walk(dst))
    dst_reads_storage = any(_fld(n, 'storage') for n in sx.walk(dst))
    ok = src_reads_storage and dst_reads_size and not dst_reads_storage
    (rep.holds if ok else rep.violated)('R08.5', '%s:ec_enc_shrink moves the tail from buf+storage to buf+_size' % prog.config, where,
                                        'dst `%s`  src `%s`' % (sx.show(dst)[:60], sx.show(src)[:60]), **({} if ok else {'key': 'shrink-operands'}))
    stores = T.stores_where(cf, lambda lv, n: _fld(lv, 'storage'))
    early = [(b, i, n) for b, i, n in stores if (b == mb and i < mi) or (b != mb and mb in cf.reachable_from(b))]
    if early:
        b, i, n = early[0]
        rep.violated('R08.5', '%s:ec_enc_shrink reads the old storage when it moves the tail' % prog.config, '%s:%s' % (f.file, sx.line(n)),
                     '`%s` reaches the move: source and destination coincide and the raw-bit tail is left behind at the old end' % sx.show(n), key='shrink-stale-storage')
    else:
        rep.holds('R08.5', '%s:ec_enc_shrink reads the old storage when it moves the tail' % prog.config, where, 'no assignment to storage reaches the move')
    late = [(b, i, n) for b, i, n in stores if (b == mb and i > mi) or (b != mb and b in cf.reachable_from(mb))]
    ok = bool(late) and all(sx.key(sx.strip(n[2])) == ('param', psz) for b, i, n in late if n[0] == 'assign') and \
        cf.must_pass(mb, {cf.exit}, {b for b, i, n in late} - ({mb} if not any(b == mb and i > mi for b, i, n in late) else set())) if late else False
    if late and any(b == mb and i > mi for b, i, n in late):
        ok = all(sx.key(sx.strip(n[2])) == ('param', psz) for b, i, n in late if n[0] == 'assign')
    (rep.holds if ok else rep.violated)('R08.5', '%s:ec_enc_shrink sets storage = _size after the move' % prog.config, where,
                                        [sx.show(n) for b, i, n in late] or 'no store to storage after the move', **({} if ok else {'key': 'shrink-storage-update'}))


def r08_6(rep, prog):
    """the terminator of ec_enc_done takes one more bit exactly when
    (end|msk) >= val+rng: the coder's intervals are half open ([val,val+rng),
    adjacent symbols share the bound), so the largest code value the chosen
    bits can denote must stay strictly below val+rng"""
    f = prog.fn('ec_enc_done')
    rep.functions.add(f.name)
    cf = cfgm.CFG(f)
    hits = []
    for b in cf.blocks:
        c = cf.cond(b)
        if c is None or cf.blocks[b]['term'].get('kind') != 'IfStmt':
            continue
        if any(_fld(n, 'rng') for n in sx.walk(c)) and any(_fld(n, 'val') for n in sx.walk(c)):
            hits.append((b, c))
    if len(hits) != 1:
        rep.unresolved('R08.6', 'ec_enc_done: expected one branch comparing against val+rng, found %d' % len(hits), f.where())
        return
    b, c = hits[0]
    at = guards.atoms(c, True)
    where = '%s:%s' % (f.file, cf.blocks[b]['term'].get('l'))
    shape = None
    if len(at) == 1:
        op, l, r = at[0]
        def is_sum(k):
            return isinstance(k, tuple) and k[0] == 'bin' and k[1] == '+' and {k[2][0], k[3][0]} == {'field'} and {k[2][2], k[3][2]} == {'val', 'rng'}
        def is_or(k):
            return isinstance(k, tuple) and k[0] == 'bin' and k[1] == '|'
        if is_sum(l) and is_or(r):
            shape = op            # val+rng OP end|msk
        elif is_sum(r) and is_or(l):
            shape = {'<': '>', '<=': '>='}.get(op, op) + '(flipped)'
    if shape is None:
        rep.unresolved('R08.6', 'ec_enc_done: terminator test `%s` has an unrecognised form' % sx.show(c), where)
        return
    ok = shape == '<='
    (rep.holds if ok else rep.violated)('R08.6', '%s:ec_enc_done adds a terminator bit when (end|msk) >= val+rng (half-open interval)' % prog.config, where,
                                        'test is `%s` (normalised: val+rng %s end|msk)' % (sx.show(c), shape),
                                        **({} if ok else {'key': 'done-terminator-bound'}))
    # the bits taken after the extra step use the same (val+msk)&~msk rounding in both places
    ends = [n for n in f.all_nodes() if n[0] == 'assign' and sx.kind(n[1]) == 'local' and n[1][1] == 'end' and any(_fld(x, 'val') for x in sx.walk(n[2]))]
    ok = len(ends) == 2 and sx.key(ends[0][2]) == sx.key(ends[1][2])
    (rep.holds if ok else rep.violated)('R08.6', '%s:ec_enc_done rounds val up to the terminator grid the same way before and after the extra bit' % prog.config, f.where(),
                                        [sx.show(n) for n in ends], **({} if ok else {'key': 'done-rounding'}))


# ------------------------------------------------------------------ R08.7
def r08_7(rep, prog):
    """fractional bit count: the straight-line computation of ec_tell_frac (linear estimate + threshold table)
    equals the RFC 6716 definition (section 4.1.6: square the 16-bit mantissa BITRES times, collecting the
    carry bits) for every one of the 32768 mantissa classes.  The function body is a single basic block; its
    statements after the mantissa is formed are evaluated symbolically per class (table reads resolved from
    the evaluated initialiser) - nothing is executed."""
    from .. import decide
    from ..facts import flatten
    f = prog.fn('ec_tell_frac')
    rep.functions.add(f.name)
    cg = cfgm.CFG(f)
    body = [b for b in cg.blocks if cg.blocks[b]['stmts']]
    inst = '%s:ec_tell_frac equals the RFC definition of the fractional bit count for every mantissa class' % prog.config
    if len(body) != 1 or any(cg.cond(b) is not None for b in body):
        # the loop form (the RFC text itself) or another structure: nothing to compare with a table
        loops = cg.natural_loops()
        if loops:
            rep.holds('R08.7', inst, f.where(), 'iterative form (a loop of squarings), no threshold table to validate')
        else:
            rep.unresolved('R08.7', inst + ': body is neither one straight-line block nor a loop')
        return
    stmts = cg.blocks[body[0]]['stmts']
    # the mantissa: the local assigned  rng >> (l - 16);  the result: the operand subtracted in the return
    mant = None
    mi = None
    for i, s_ in enumerate(stmts):
        if s_[0] == 'assign' and sx.kind(sx.strip(s_[1])) == 'local':
            r = sx.strip(s_[2])
            if sx.kind(r) == 'bin' and r[1] == '>>' and sx.kind(sx.strip(r[2])) == 'field' and sx.strip(r[2])[3] == 'rng':
                mant, mi = sx.strip(s_[1]), i
                shift = sx.strip(r[3])
    ret = [s_ for s_ in stmts if sx.kind(s_) == 'ret']
    if mant is None or not ret or sx.kind(sx.strip(ret[0][1])) != 'bin' or sx.strip(ret[0][1])[1] != '-':
        rep.unresolved('R08.7', inst + ': mantissa / result not recognised')
        return
    lvar = sx.strip(sx.strip(ret[0][1])[3])
    if sx.kind(shift) != 'bin' or shift[1] != '-' or sx.int_val(shift[3]) != 16 or sx.key(sx.strip(shift[2])) != sx.key(lvar):
        rep.unresolved('R08.7', inst + ': mantissa is not rng >> (l - 16)')
        return
    tables = {}
    for name, g in prog.globals.items():
        if name.startswith(f.name + '::') and 'init' in g:
            tables[name.split('::')[1]] = list(flatten(g['init']))
    bitres = None
    for n_ in f.all_nodes():
        if sx.kind(n_) == 'int' and 'BITRES' in sx.macros(n_):
            bitres = n_[1]
    if bitres is None:
        rep.unresolved('R08.7', inst + ': BITRES not found')
        return

    def run(r0, L0):
        env = {sx.key(mant): r0, sx.key(lvar): L0}

        def res(e):
            if sx.kind(e) == 'idx':
                b_ = sx.strip(e[1])
                nm = b_[1] if sx.kind(b_) in ('global', 'local') else None
                nm = nm.split('::')[-1] if isinstance(nm, str) else None
                if nm in tables:
                    ix = decide.ev3(e[2], env, res)
                    if ix is None or not (0 <= ix < len(tables[nm])):
                        raise IndexError(nm, ix)
                    return tables[nm][ix]
            return None
        for s_ in stmts[mi + 1:]:
            if s_[0] == 'assign' and sx.kind(sx.strip(s_[1])) == 'local':
                v = decide.ev3(s_[2], env, res)
                if v is None:
                    return None
                env[sx.key(sx.strip(s_[1]))] = v & 0xffffffff if v >= 0 else v
            elif s_[0] == 'cassign' and sx.kind(sx.strip(s_[2])) == 'local':
                k = sx.key(sx.strip(s_[2]))
                v = decide.ev3(s_[3], env, res)
                if v is None or k not in env:
                    return None
                op = s_[1].rstrip('=')
                env[k] = {'+': env[k] + v, '-': env[k] - v, '|': env[k] | v, '<<': env[k] << v, '>>': env[k] >> v}.get(op)
                if env[k] is None:
                    return None
        return env.get(sx.key(lvar))

    def ref(r0, L0):
        r, l = r0, L0
        for _ in range(bitres):
            r = (r * r) >> 15
            b_ = r >> 16
            l = (l << 1) | b_
            r >>= b_
        return l
    bad = []
    n = 0
    try:
        for r0 in range(32768, 65536):
            n += 1
            got = run(r0, 20)
            if got is None:
                rep.unresolved('R08.7', inst + ': a statement could not be evaluated')
                return
            if got != ref(r0, 20):
                bad.append((r0, got - (20 << bitres), ref(r0, 20) - (20 << bitres)))
    except IndexError as ex:
        rep.violated('R08.7', inst, f.where(), 'table index out of range: %s' % (ex.args,), key='tell-frac-table')
        return
    rep.count(n)
    if bad:
        rep.violated('R08.7', inst, f.where(), 'for mantissa %d (rng>>(l-16)) the code yields %d eighth-bits, the RFC iteration %d; %d of %d classes differ (tables %s)' % (
            bad[0][0], bad[0][1], bad[0][2], len(bad), n, {k: v for k, v in tables.items()}), key='tell-frac-table')
    else:
        rep.holds('R08.7', inst, f.where(), '%d mantissa classes, BITRES=%d, table(s) %s' % (n, bitres, sorted(tables)))


# ------------------------------------------------------------------ R08.8
def r08_8(rep, prog):
    """initial-bit patching must find the first byte of the stream wherever it currently lives: already in the buffer
    (offs > 0), held back for carry propagation (rem >= 0), pending as the first of a run of 0xFF bytes (ext > 0), or
    still inside val (nothing has been carried out yet).  The branch that patches val is therefore only correct when
    ext == 0: at that store the fact `ext <= 0` (from an earlier `ext > 0` test) must hold."""
    f = prog.fn('ec_enc_patch_initial_bits')
    rep.functions.add(f.name)
    cf = cfgm.CFG(f)
    n = 0
    for b, i, s_ in cf.positions():
        if s_[0] == 'assign' and sx.kind(sx.strip(s_[1])) == 'field' and sx.strip(s_[1])[3] == 'val':
            n += 1
            facts = T.stable_facts(cf, b, i)
            ok = any(isinstance(a[1], tuple) and isinstance(a[2], tuple) and (
                (a[0] == '<=' and a[1][0] == 'field' and a[1][-1] == 'ext' and a[2] == ('int', 0)) or
                (a[0] == '==' and a[1][0] == 'field' and a[1][-1] == 'ext' and a[2] == ('int', 0)) or
                (a[0] == '<' and a[1][0] == 'field' and a[1][-1] == 'ext' and a[2] == ('int', 1))) for a in facts)
            inst = '%s:ec_enc_patch_initial_bits patches val only when no byte is pending' % prog.config
            where = '%s:%s' % (f.file, sx.line(s_))
            if ok:
                rep.holds('R08.8', inst, where, 'facts %s' % [T.show_atom(a) for a in facts][:4])
            else:
                rep.violated('R08.8', inst, where, 'the val branch is taken under %s, which does not exclude ext > 0: when the stream starts with 0xFF bytes (counted in ext, rem still -1, offs 0) the first byte is pending, and bits of a LATER byte are patched' %
                             [T.show_atom(a) for a in facts][:4], key='patch-initial-bits-pending-ff')
    if not n:
        rep.unresolved('R08.8', '%s: no store to val in ec_enc_patch_initial_bits' % prog.config)
    # conservation of pending bytes: rem == -1 means "no byte held"; a store that fills rem while rem may be negative takes
    # the byte out of the run of pending 0xFF bytes, so the run must shrink by one on the same path (else one byte too
    # many is emitted).  Path feasibility under rem = -1, ext = 1, offs = 0.
    krem = kext = koffs = None
    for x in f.all_nodes():
        if sx.kind(x) == 'field' and x[3] == 'rem':
            krem = sx.key(x)
        if sx.kind(x) == 'field' and x[3] == 'ext':
            kext = sx.key(x)
        if sx.kind(x) == 'field' and x[3] == 'offs':
            koffs = sx.key(x)
    if krem and kext and koffs:
        feas = decide.feasible_blocks(cf, {krem: -1, kext: 1, koffs: 0}, entry=True)
        fills = [(b, i, x) for b, i, x in cf.find(lambda x: x[0] == 'assign' and sx.key(sx.strip_paren(x[1])) == krem) if b in feas]
        shr = {b for b, i, x in cf.find(lambda x: (x[0] == 'inc' and x[1] == '--' and sx.key(sx.strip_paren(x[3])) == kext) or
                                        (x[0] == 'cassign' and x[1] == '-' and sx.key(sx.strip_paren(x[2])) == kext)) if b in feas}
        inst = '%s:ec_enc_patch_initial_bits takes the first byte out of the pending 0xFF run when it starts holding it' % prog.config
        if not fills:
            rep.unresolved('R08.8', inst + ': no store to rem is feasible with rem == -1, ext == 1, offs == 0')
        for b, i, x in fills:
            ok = b in shr or any(cf.dominates(b, sb) or cf.dominates(sb, b) for sb in shr)
            (rep.holds if ok else rep.violated)('R08.8', inst, '%s:%s' % (f.file, sx.line(x)),
                                                'ext is decremented on the same path' if ok else 'with rem == -1 and ext == 1 the byte is copied into rem but the run keeps its length: the stream gets one 0xFF byte too many and the decoder desynchronises',
                                                **({} if ok else {'key': 'patch-initial-bits-run-length'}))


# ------------------------------------------------------------------ R08.9
def r08_9(rep, prog):
    """finishing the stream flushes every byte that is still held back: the closing ec_enc_carry_out(this, 0) of
    ec_enc_done is reached when a byte waits in rem AND when only a run of 0xFF bytes is pending (rem == -1, ext > 0:
    every range byte produced so far was 0xFF).  Path feasibility under the two valuations."""
    from .. import decide
    f = prog.fn('ec_enc_done')
    rep.functions.add(f.name)
    cf = cfgm.CFG(f)
    sites = [(b, i, c) for b, i, c in T.calls_to(cf, 'ec_enc_carry_out') if len(c[2]) > 1 and sx.int_val(sx.strip(c[2][1])) == 0]
    inst = '%s:ec_enc_done flushes held-back bytes whether they wait in rem or as a pending run of 0xFF' % prog.config
    if not sites:
        rep.unresolved('R08.9', inst + ': no closing ec_enc_carry_out(this, 0)')
        return
    b0 = sites[-1][0]
    kt = ('param', 0)
    bad = []
    for nm, val in (('a byte waits in rem', {('field', kt, 'rem'): 5, ('field', kt, 'ext'): 0}), ('only 0xFF bytes are pending (rem == -1, ext > 0)', {('field', kt, 'rem'): -1, ('field', kt, 'ext'): 1})):
        feas = decide.feasible_blocks(cf, val)
        # the flush must be unavoidable: the function exit is not reachable without passing the call block
        seen, work, skip = {cf.entry}, [cf.entry], False
        blocks, edges = decide.feasible_edges(cf, val)
        while work:
            x = work.pop()
            if x == b0:
                continue
            if x == cf.exit:
                skip = True
                break
            for y in cf.succ[x]:
                if (x, y) in edges and y not in seen:
                    seen.add(y)
                    work.append(y)
        if skip or b0 not in feas:
            bad.append(nm)
    where = '%s:%s' % (f.file, sx.line(sites[-1][2]))
    if bad:
        rep.violated('R08.9', inst, where, 'when %s the function can finish without the closing carry-out: those bytes are never written (the buffer keeps zeros) and no error is reported' % bad[0], key='enc-done-flush')
    else:
        rep.holds('R08.9', inst, where, 'the closing carry-out is unavoidable under both valuations')


def check(rep, prog, tier):
    r08_9(rep, prog)
    r08_8(rep, prog)
    r08_7(rep, prog)
    r08_5(rep, prog)
    r08_6(rep, prog)
    r08_1(rep, prog)
    r08_2(rep, prog)
    r08_3(rep, prog)
