"""C11 — settings are validated, read back, and (structurally) honoured.

R11.1/2 per SET arm: at every state store and forwarding call the abstract
        value of the request argument equals the documented accepted set
        (spec/ctl_ranges.json); arms that validate nothing are frozen with a
        reason.  A store placed before its range check, a widened or narrowed
        range, a dropped enumerator are all reported.
R11.3   per GET arm: every store through the out-pointer is dominated by the
        null check whose failing edge leaves through bad_arg.
R11.4   GET reads the path SET wrote (deviations frozen with a reason).
R11.5   default arm -> OPUS_UNIMPLEMENTED; bad_arg block stores nothing.
R11.6   create/init: argument checks dominate clear/alloc; alloc/free paired.
R11.7   settings fields are written only by the dispatcher and init.
R11.9   forwarded multistream requests are atomic (per-stream validation
        cannot differ between streams).
"""
import json, os
from .. import decide, sx, cfg as cfgm, guards, templates as T, absint, ctl, compdb
from ..guards import I
from ..compdb import AnalysisBroken

EXPLANATION = (
    'Decided over all ctl dispatchers (every case arm enumerated from the AST switch): R11.1/2 the set of request values '
    'that can reach a state store or a forwarded sub-request equals the documented accepted set (interval-set abstract '
    'interpretation of each arm; spec transcribed from include/opus_defines.h), unvalidated internal arms frozen with a '
    'reason; R11.3 GET out-pointer null-checked before the store; R11.4 GET loads the path SET stored; R11.5 unknown '
    'request -> OPUS_UNIMPLEMENTED and the bad_arg exit stores nothing; R11.6 creation/init argument checks dominate '
    'clear/alloc and every failure after a successful allocation frees it; R11.7 settings fields are assigned only by '
    'the dispatcher and the init function; R11.9 multistream forwarding cannot be partially applied. '
    'NOT decided: that a stored setting actually shapes later packets (duration, bandwidth cap, forced channels, '
    'LOWDELAY => MDCT only) - statements about run-time values of the mode decision chain.')

CONFIGS = {'quick': ['float', 'fixed'], 'thorough': ['float', 'fixed', 'custom']}

SPEC = json.load(open(os.path.join(compdb.VERIF, 'spec', 'ctl_ranges.json')))

DISPATCHERS = {
    'opus_encoder_ctl': 'OpusEncoder',
    'opus_decoder_ctl': 'OpusDecoder',
    'opus_custom_encoder_ctl': 'OpusCustomEncoder',
    'opus_custom_decoder_ctl': 'OpusCustomDecoder',
    'opus_multistream_encoder_ctl_va_list': 'OpusMSEncoder',
    'opus_multistream_decoder_ctl_va_list': 'OpusMSDecoder',
}
INIT_OF = {
    'OpusEncoder': ['opus_encoder_init'],
    'OpusDecoder': ['opus_decoder_init'],
    'OpusCustomEncoder': ['opus_custom_encoder_init_arch', 'celt_encoder_init', 'opus_custom_encoder_init'],
    'OpusCustomDecoder': ['opus_custom_decoder_init', 'celt_decoder_init'],
    'OpusMSEncoder': ['opus_multistream_encoder_init_impl', 'opus_multistream_surround_encoder_init', 'opus_multistream_encoder_init'],
    'OpusMSDecoder': ['opus_multistream_decoder_init'],
}

# R11.4: GET arms that legitimately do not read back the SET path
GET_DEVIATIONS = {
    ('opus_encoder_ctl', 'OPUS_GET_BITRATE_REQUEST'): 'documented: returns the resolved rate (AUTO/MAX resolution and clamping)',
    ('opus_encoder_ctl', 'OPUS_GET_BANDWIDTH_REQUEST'): 'documented: returns the bandwidth in use, not the forced one',
    ('opus_encoder_ctl', 'OPUS_GET_PHASE_INVERSION_DISABLED_REQUEST'): 'delegated to the CELT layer through the same request',
    ('opus_decoder_ctl', 'OPUS_GET_PHASE_INVERSION_DISABLED_REQUEST'): 'delegated to the CELT layer through the same request',
    ('opus_decoder_ctl', 'OPUS_GET_BANDWIDTH_REQUEST'): 'read-only query of the last packet',
}

# R11.7: fields stored by a SET arm that other code may also assign, each with the reason
OWNERSHIP_EXCEPTIONS = {
    ('OpusEncoder', 'voice_ratio'): 'private request; also the encoder-internal speech/music estimate (run_analysis result)',
    ('silk_EncControlStruct', 'maxInternalSampleRate'): 'in/out control block: recomputed from user_bandwidth every frame, no GET reads it',
    ('silk_EncControlStruct', 'useCBR'): 'in/out control block: recomputed from use_vbr every frame, no GET reads it',
    ('silk_EncControlStruct', 'useInBandFEC'): 'in/out control block: derived from fec_config per frame',
    ('silk_EncControlStruct', 'complexity'): 'saved, zeroed for the prefill pass and restored before silk_Encode returns (same call)',
    ('silk_EncControlStruct', 'reducedDependency'): 'in/out control block: OR-ed with first-frame flag per packet',
    ('OpusCustomEncoder', 'stream_channels'): 'CELT_SET_CHANNELS is an internal per-frame request; also reset from channels',
    ('OpusCustomDecoder', 'stream_channels'): 'CELT_SET_CHANNELS is an internal per-frame request',
    ('OpusCustomEncoder', 'bitrate'): 'internal per-frame request from the Opus layer',
    ('OpusCustomEncoder', 'lfe'): 'internal request',
    ('OpusCustomEncoder', 'energy_mask'): 'internal pointer request',
    ('OpusEncoder', 'energy_masking'): 'internal pointer request',
    ('OpusCustomEncoder', 'end'): 'custom-modes builds only: with in-band signalling the coded end band is written to / read from the packet header each frame (CELT_SET_END_BAND is an internal request)',
    ('OpusCustomDecoder', 'end'): 'custom-modes builds only: with in-band signalling the end band is taken from the packet header each frame',
}


def setup(rep, tier):
    rep.minimum('R11.1', 40)
    rep.minimum('R11.3', 50)
    rep.minimum('R11.4', 15)
    rep.minimum('R11.5', 6)
    rep.minimum('R11.6', 10)
    rep.minimum('R11.7', 20)
    rep.minimum('R11.8', 12)
    rep.minimum('R11.10', 1)
    rep.minimum('R11.11', 2)
    rep.minimum('R11.12', 1)
    rep.minimum('R11.13', 2)
    rep.minimum('R11.14', 10)
    rep.minimum('R11.15', 1)
    rep.minimum('R11.16', 3)
    rep.trusted.append('spec/ctl_ranges.json (hand transcription of include/opus_defines.h)')


def to_iset(lst):
    return absint.norm([tuple(x) for x in lst])


# ------------------------------------------------------------ field summaries

def field_store_values(prog, rec, fld, cache={}):
    """join of the abstract values stored into (rec.fld) anywhere in the program"""
    key = (id(prog), rec, fld)
    if key in cache:
        return cache[key]
    out = absint.BOT
    found = False
    for f in prog.functions_all:
        hit = False
        for n in f.all_nodes():
            if n[0] in ('assign', 'cassign', 'inc'):
                lv = sx.strip_paren(n[1] if n[0] == 'assign' else (n[2] if n[0] == 'cassign' else n[3]))
                if sx.kind(lv) == 'field' and lv[2] == rec and lv[3] == fld:
                    hit = True
                    break
        if not hit:
            continue
        an = absint.Analyzer(prog, f)
        for b, i, n in an.cf.find(lambda n: n[0] in ('assign', 'cassign', 'inc')):
            lv = sx.strip_paren(n[1] if n[0] == 'assign' else (n[2] if n[0] == 'cassign' else n[3]))
            if sx.kind(lv) == 'field' and lv[2] == rec and lv[3] == fld:
                st = an.state_before_node(b, i, n)
                if st is None:
                    continue
                found = True
                if n[0] == 'assign':
                    v = an.ev(n[2], an._effects(n[2], st))
                else:
                    v = absint.TOP
                out = absint.join(out, v)
    if not found:
        out = None
    cache[key] = out
    return out


def const_field_values(prog, rec, fld):
    """values of member fld over all const static instances of rec, provided no code stores to any rec field"""
    vals = set()
    for name, g in prog.globals.items():
        if g.get('elem_record') == rec and g['const'] and 'init' in g:
            for it in _structs(g['init']):
                if fld in it and isinstance(it[fld], int):
                    vals.add(it[fld])
    if not vals:
        return None
    for f in prog.functions_all:
        for n in f.all_nodes():
            if n[0] in ('assign', 'cassign'):
                lv = sx.strip_paren(n[1] if n[0] == 'assign' else n[2])
                if sx.kind(lv) == 'field' and lv[2] == rec and lv[3] == fld:
                    return None
    return absint.from_values(vals)


def _structs(x):
    if isinstance(x, list):
        for y in x:
            yield from _structs(y)
    elif isinstance(x, dict) and 'addr' not in x:
        yield x


def make_field_summary(prog, f):
    """summaries for the integer fields the function loads but never stores"""
    fs = {}
    stored = set()
    for n in f.all_nodes():
        if n[0] in ('assign', 'cassign', 'inc'):
            lv = sx.strip_paren(n[1] if n[0] == 'assign' else (n[2] if n[0] == 'cassign' else n[3]))
            if sx.kind(lv) == 'field':
                stored.add((lv[2], lv[3]))
    wanted = set()
    for n in f.all_nodes():
        if n[0] == 'field' and sx.A(n).get('t') == 's' and (n[2], n[3]) not in stored:
            wanted.add((n[2], n[3]))
    for rec, fld in wanted:
        if fld not in ('channels', 'nbEBands', 'nb_channels', 'nb_streams', 'nb_coupled_streams'):
            continue
        v = const_field_values(prog, rec, fld)
        if v is None:
            v = field_store_values(prog, rec, fld)
        if v is not None and not absint.is_top(v):
            fs[(rec, fld)] = v
    return fs


# ------------------------------------------------------------ R11.1/2/3/4/5

def is_state_store(arm, n, value_lid):
    lv = sx.strip_paren(n[1] if n[0] == 'assign' else (n[2] if n[0] == 'cassign' else n[3]))
    root, path = sx.lvalue_root(lv)
    if sx.kind(root) == 'local':
        # stores to plain local scalars are not state; stores through a local pointer are
        if not path or path == []:
            return False
        if root[2] == value_lid:
            return False      # *value = ... (GET) handled separately
        l = arm.f.locals.get(root[2])
        if l and ('*' not in l['type']) and '[' in l['type']:
            return False
        if l and '*' not in l['type']:
            return False
        return True
    return sx.kind(root) in ('param', 'call', 'cast', 'global')


def analyse_dispatcher(rep, prog, fname):
    f = prog.fn(fname)
    rep.functions.add(fname)
    cf, arms = ctl.switch_arms(f)
    fs = make_field_summary(prog, f)
    an = absint.Analyzer(prog, f, field_summary=fs)
    spec = SPEC.get(fname, {})
    noval = SPEC['unvalidated_by_design'].get(fname, {})
    set_paths = {}
    get_paths = {}
    nset = nget = 0
    for arm in arms:
        lid, ty = arm.value_local()
        where = '%s:%s' % (f.file, arm.line())
        if arm.is_default:
            # R11.5
            rets = [n for b, i, n in arm.find(lambda n: n[0] == 'assign' and sx.kind(n[1]) == 'local' and n[1][1] == 'ret')]
            ok = any(sx.int_val(n[2]) == -5 for n in rets)
            if not rets:
                # idiom: default: goto bad_request;  bad_request: va_end; return OPUS_UNIMPLEMENTED
                act = T._block_action(cf, arm.entry, 0)
                if act and act[0] == 'goto':
                    lb = [b for b in cf.blocks if cf.blocks[b].get('label', {}).get('name') == act[1]]
                    if lb:
                        a2 = T._block_action(cf, lb[0], 0)
                        ok = a2 == ('return', -5) and not any(m[0] in ('assign', 'cassign', 'inc') for st_ in cf.blocks[lb[0]]['stmts'] for m in sx.walk(st_))
                elif act == ('return', -5):
                    ok = True
            others = [n for b, i, n in arm.find(lambda n: n[0] in ('assign', 'cassign', 'inc')) if n not in rets]
            inst = '%s:%s default arm' % (prog.config, fname)
            if ok and not others:
                rep.holds('R11.5', inst, where, 'sets ret = OPUS_UNIMPLEMENTED and nothing else')
            else:
                rep.violated('R11.5', inst, where, 'default arm does not (only) set OPUS_UNIMPLEMENTED: %s' % [sx.show(n) for n in rets + others][:3], key=fname + ':default')
            continue
        if lid is None:
            continue
        is_int = ty in ('opus_int32', 'int', 'opus_uint32', 'unsigned int')
        is_ptr = ty.endswith('*')
        if is_ptr and len(arm.labels) == 1 and arm.name in noval:
            is_ptr = False
            is_int = False
            rep.holds('R11.1', '%s:%s %s unvalidated by design' % (prog.config, fname, arm.name), where, noval[arm.name])
            continue
        if is_int:
            nset += 1
            # sinks: state stores and calls that receive the value
            sinks = []
            for b, i, n in arm.find(lambda n: n[0] in ('assign', 'cassign', 'inc')):
                if is_state_store(arm, n, lid):
                    sinks.append((b, i, n))
            for b, i, n in arm.find(lambda n: n[0] == 'call'):
                if any(sx.kind(x) == 'local' and x[2] == lid for a in n[2] for x in sx.walk(a)):
                    sinks.append((b, i, n))
            for name in arm.names:
                inst = '%s:%s %s' % (prog.config, fname, name)
                if name in noval:
                    rep.holds('R11.1', inst + ' unvalidated by design', where, noval[name])
                    continue
                want = spec.get(name)
                forwards_only = fname.startswith('opus_multistream') and want is None
                if forwards_only:
                    continue        # handled by R11.9 (validation happens in the sub-object's dispatcher)
                if want is None:
                    rep.violated('R11.1', inst, where, 'SET arm has no documented range in spec/ctl_ranges.json and is not frozen as unvalidated-by-design', key='%s:%s:nospec' % (fname, name))
                    continue
                want = to_iset(want)
                reach = absint.BOT
                bad = None
                if not sinks:
                    rep.unresolved('R11.1', 'no state store or forwarding call found in arm %s of %s' % (name, fname), where)
                    continue
                for b, i, n in sinks:
                    st = an.state_before_node(b, i, n)
                    if st is None:
                        continue
                    if n[0] == 'call':
                        pass
                    v = an.ev(['local', 'value', lid], st)
                    reach = absint.join(reach, v)
                    if absint.meet(v, want) != v and bad is None:
                        bad = (n, v)
                if bad is not None:
                    n, v = bad
                    rep.violated('R11.1', inst, '%s:%s' % (f.file, sx.line(n)),
                                 'value reaching `%s` is %s, documented accepted set is %s (store/forward not dominated by the full range check)' %
                                 (sx.show(n)[:70], absint.show(v), absint.show(want)), key='%s:%s:store' % (fname, name))
                elif reach != want:
                    rep.violated('R11.2', inst, where, 'accepted set %s differs from the documented %s' % (absint.show(reach), absint.show(want)), key='%s:%s:range' % (fname, name))
                else:
                    rep.holds('R11.1', inst, where, 'value at all %d sinks within %s; accepted set equals the documented one' % (len(sinks), absint.show(want)))
            # R11.4 bookkeeping: paths stored with exactly the value
            for b, i, n in sinks:
                if n[0] == 'assign' and sx.kind(sx.strip(n[2])) == 'local' and sx.strip(n[2])[2] == lid:
                    lv = sx.strip_paren(n[1])
                    if sx.kind(lv) == 'field':
                        for name in arm.names:
                            set_paths.setdefault(name.replace('_SET_', '_X_'), set()).add(_fieldpath(lv))
                if n[0] == 'call':
                    for name in arm.names:
                        set_paths.setdefault(name.replace('_SET_', '_X_'), set()).add(('forward', sx.callee_name(n)))
        elif is_ptr:
            nget += 1
            # R11.3: stores through the out-pointer
            outs = []
            for b, i, n in arm.find(lambda n: n[0] in ('assign', 'cassign')):
                lv = sx.strip_paren(n[1] if n[0] == 'assign' else n[2])
                r, path = sx.lvalue_root(lv)
                if sx.kind(r) == 'local' and r[2] == lid and path:
                    outs.append((b, i, n))
            fwd = [(b, i, n) for b, i, n in arm.find(lambda n: n[0] == 'call')
                   if any(sx.kind(x) == 'local' and x[2] == lid for a in n[2] for x in sx.walk(a)) and sx.callee_name(n) not in ('memcpy', 'memset', 'memmove')]
            inst = '%s:%s %s' % (prog.config, fname, '/'.join(arm.names[:3]) + ('...' if len(arm.names) > 3 else ''))
            if not outs and fwd:
                rep.holds('R11.3', inst + ' forwards the pointer', where, 'null check performed by %s' % sorted({sx.callee_name(n) or '?' for b, i, n in fwd}))
            elif not outs:
                rep.unresolved('R11.3', 'GET arm %s of %s neither stores through nor forwards its pointer' % (arm.name, fname), where)
            for b, i, n in outs:
                known = T.stable_facts(cf, b, i)
                if guards.implies(known, ('!=', ('local', lid), I(0))):
                    # failing edge must leave through bad_arg
                    act = None
                    for cond, pol, gb in cfgm.guards_of(cf, b):
                        if any(a == ('!=', ('local', lid), I(0)) for a in guards.atoms(cond, pol)):
                            act = T.failing_edge_action(cf, gb, pol)
                    if act and (act == ('goto', 'bad_arg') or (act[0] == 'return' and act[1] == -1)):
                        rep.holds('R11.3', inst, '%s:%s' % (f.file, sx.line(n)), 'store `%s` dominated by null check -> %s' % (sx.show(n)[:50], act))
                    else:
                        rep.violated('R11.3', inst, '%s:%s' % (f.file, sx.line(n)), 'null pointer is not rejected through bad_arg (failing edge: %s)' % (act,), key='%s:%s:null-exit' % (fname, arm.name))
                else:
                    rep.violated('R11.3', inst, '%s:%s' % (f.file, sx.line(n)), 'store through the out-pointer `%s` is not dominated by a null check' % sx.show(n)[:60], key='%s:%s:null' % (fname, arm.name))
                if n[0] == 'assign' and len(arm.labels) == 1:
                    rhs = sx.strip(n[2])
                    get_paths.setdefault(arm.name.replace('_GET_', '_X_'), []).append((arm.name, rhs, '%s:%s' % (f.file, sx.line(n))))
            if fwd and len(arm.labels) == 1:
                get_paths.setdefault(arm.name.replace('_GET_', '_X_'), []).append((arm.name, ['call', ['func', sx.callee_name(fwd[0][2]) or '?'], []], where))
    # R11.4
    for key, gets in sorted(get_paths.items()):
        if key not in set_paths:
            continue
        sp = set_paths[key]
        # a getter with several stores through its out-pointer (sentinel resolution next to the plain value) reads what SET
        # wrote if one of them does; the others are not separate obligations
        direct = [(g_, r_, w_) for g_, r_, w_ in gets if (sx.kind(r_) == 'field' and _fieldpath(r_) in sp) or (sx.kind(r_) == 'call' and ('forward', sx.callee_name(r_)) in sp)]
        if direct and len(gets) > 1:
            gets = direct[:1]
        for gname, rhs, gwhere in gets:
            inst = '%s:%s %s reads what SET wrote' % (prog.config, fname, gname)
            if sx.kind(rhs) == 'field' and _fieldpath(rhs) in sp:
                rep.holds('R11.4', inst, gwhere, 'path %s' % '.'.join(_fieldpath(rhs)))
            elif sx.kind(rhs) == 'call' and ('forward', sx.callee_name(rhs)) in sp:
                rep.holds('R11.4', inst, gwhere, 'both delegate to %s' % sx.callee_name(rhs))
            elif (fname, gname) in GET_DEVIATIONS:
                rep.holds('R11.4', inst + ' (documented deviation)', gwhere, GET_DEVIATIONS[(fname, gname)])
            else:
                rep.violated('R11.4', inst, gwhere, 'GET returns `%s` but SET stored %s' % (sx.show(rhs)[:60], sorted('.'.join(p) if p[0] != 'forward' else 'forward:' + str(p[1]) for p in sp)), key='%s:%s' % (fname, gname))
    # R11.5 bad_arg block
    labs = [b for b in cf.blocks if cf.blocks[b].get('label', {}).get('name') == 'bad_arg']
    if labs:
        seen = set(labs) | cf.reachable_from(labs[0])
        stores = []
        rets = []
        for b in seen:
            for s in cf.blocks[b]['stmts']:
                for n in sx.walk(s):
                    if n[0] in ('assign', 'cassign', 'inc'):
                        stores.append(n)
                if sx.kind(s) == 'ret':
                    rets.append(sx.int_val(s[1]))
        inst = '%s:%s bad_arg exit' % (prog.config, fname)
        if not stores and rets == [-1]:
            rep.holds('R11.5', inst, f.where(), 'only va_end and return OPUS_BAD_ARG')
        else:
            rep.violated('R11.5', inst, f.where(), 'bad_arg path stores %s / returns %s' % ([sx.show(n) for n in stores][:3], rets), key=fname + ':bad_arg')
    return arms, an, cf


def _fieldpath(e):
    out = []
    e = sx.strip_paren(e)
    while sx.kind(e) == 'field':
        out.append(e[3])
        e = sx.strip(e[1])
    return tuple(reversed(out))


# ------------------------------------------------------------ R11.6

CTORS = [
    # (function, kind, required facts builder)
    ('opus_encoder_init', 'init'), ('opus_decoder_init', 'init'),
    ('opus_encoder_create', 'create'), ('opus_decoder_create', 'create'),
    ('opus_multistream_encoder_create', 'create'), ('opus_multistream_decoder_create', 'create'),
    ('opus_multistream_surround_encoder_create', 'create'),
    ('opus_projection_ambisonics_encoder_create', 'create'), ('opus_projection_decoder_create', 'create'),
    ('opus_repacketizer_create', 'create'),
    # the CELT layer's own initialisers: the public opus_custom_*_init / _create of custom-modes builds end here
    ('opus_custom_encoder_init_arch', 'celt-init'), ('opus_custom_decoder_init', 'celt-init'),
]


def fs_atoms(f):
    Fs = guards.param(f, 'Fs')
    ch = guards.param(f, 'channels')
    req = []
    if Fs:
        req.append(('Fs is one of 48000/24000/16000/12000/8000', [('==', Fs, I(v)) for v in (48000, 24000, 16000, 12000, 8000)]))
    if ch:
        req.append(('channels in {1,2}', [('==', ch, I(1)), ('==', ch, I(2))]))
    return req


def r11_6(rep, prog):
    for fname, kind_ in CTORS:
        if not prog.has_fn(fname):
            rep.unresolved('R11.6', 'constructor %s not found' % fname)
            continue
        f = prog.fn(fname)
        rep.functions.add(fname)
        cf = cfgm.CFG(f)
        inst0 = '%s:%s' % (prog.config, fname)
        if kind_ == 'celt-init':
            sinks = T.calls_to(cf, ('memset', '__builtin_memset', '__memset_chk', '__builtin___memset_chk'))
            ch = f.param_index('channels')
            if not sinks or ch is None:
                rep.unresolved('R11.6', inst0 + ': state clear / channels parameter not found')
                continue
            b, i, n = sinks[0]
            an = absint.Analyzer(prog, f)
            st = an.state_at(b, i)
            vC = an.ev(['param', ch, 'channels'], st) if st is not None else absint.TOP
            ok = vC == absint.mk(1, 2)
            (rep.holds if ok else rep.violated)('R11.6', inst0 + ' rejects unsupported channel counts before clearing', '%s:%s' % (f.file, sx.line(n)),
                                                'channels in %s at the clear%s' % (absint.show(vC), '' if ok else ': a count outside 1..2 sizes the state for that many channels while every `do { } while (++c<C)` loop of the codec still processes one'),
                                                **({} if ok else {'key': fname + ':channels'}))
            continue
        if kind_ == 'init':
            sinks = T.calls_to(cf, ('memset', '__builtin_memset', '__memset_chk', '__builtin___memset_chk'))
            if not sinks:
                rep.violated('R11.6', inst0 + ' clears the state', f.where(), 'no whole-state clear found', key=fname + ':clear')
                continue
            b, i, n = sinks[0]
            an = absint.Analyzer(prog, f)
            st = an.state_at(b, i)
            Fs = f.param_index('Fs')
            ch = f.param_index('channels')
            vF = an.ev(['param', Fs, 'Fs'], st) if st is not None else absint.TOP
            vC = an.ev(['param', ch, 'channels'], st) if st is not None else absint.TOP
            okF = vF == absint.from_values([8000, 12000, 16000, 24000, 48000])
            okC = vC == absint.mk(1, 2)
            if okF and okC:
                rep.holds('R11.6', inst0 + ' validates before clearing', '%s:%s' % (f.file, sx.line(n)), 'Fs in %s, channels in %s at the clear' % (absint.show(vF), absint.show(vC)))
            else:
                rep.violated('R11.6', inst0 + ' validates before clearing', '%s:%s' % (f.file, sx.line(n)),
                             'at the state clear Fs may be %s and channels %s' % (absint.show(vF), absint.show(vC)), key=fname + ':args')
            if fname == 'opus_encoder_init':
                ap = f.param_index('application')
                vA = an.ev(['param', ap, 'application'], st) if st is not None else absint.TOP
                okA = vA == absint.from_values([2048, 2049, 2051])
                (rep.holds if okA else rep.violated)('R11.6', inst0 + ' validates application', '%s:%s' % (f.file, sx.line(n)),
                                                     'application in %s at the clear' % absint.show(vA), **({} if okA else {'key': fname + ':application'}))
            continue
        # create: alloc result checked, failure paths free, error reported
        allocs = T.calls_to(cf, ('opus_alloc', 'malloc'))
        if not allocs:
            rep.unresolved('R11.6', '%s does not allocate' % fname)
            continue
        b, i, n = allocs[0]
        an = absint.Analyzer(prog, f)
        st = an.state_at(b, i)
        # argument validation before allocating (where the constructor has Fs/channels/application itself)
        notes = []
        viol = None
        Fs, ch, ap = f.param_index('Fs'), f.param_index('channels'), f.param_index('application')
        if fname in ('opus_encoder_create', 'opus_decoder_create') and st is not None:
            vF = an.ev(['param', Fs, 'Fs'], st)
            vC = an.ev(['param', ch, 'channels'], st)
            if vF != absint.from_values([8000, 12000, 16000, 24000, 48000]) or vC != absint.mk(1, 2):
                viol = 'at the allocation Fs may be %s and channels %s' % (absint.show(vF), absint.show(vC))
            if ap is not None:
                vA = an.ev(['param', ap, 'application'], st)
                if vA != absint.from_values([2048, 2049, 2051]):
                    viol = 'at the allocation application may be %s' % absint.show(vA)
            notes.append('Fs/channels%s validated before alloc' % ('/application' if ap is not None else ''))
        # the allocated pointer: local assigned from the alloc call
        ptr = None
        for b2, i2, m in cf.find(lambda m: m[0] == 'assign' and sx.kind(m[1]) == 'local'):
            if any(x is n for x in sx.walk(m[2])):
                ptr = m[1][2]
        if ptr is None:
            rep.unresolved('R11.6', '%s: allocation result not assigned to a local' % fname)
            continue
        # NULL -> return NULL with *error = ALLOC_FAIL
        # every return NULL reachable after a non-null allocation passes through opus_free
        frees = {b3 for b3, i3, m in T.calls_to(cf, ('opus_free', 'free'))}
        for rb, ri, r in T.returns_of(cf):
            v = sx.int_val(r[1]) if r[1] is not None else None
            if v == 0:
                known = T.stable_facts(cf, rb, ri)
                if guards.implies(known, ('==', ('local', ptr), I(0))):
                    continue      # the allocation itself failed
                if not cf.dominates(b, rb):
                    continue      # before the allocation
                # path alloc -> this return must contain a free
                if rb in frees or not cf.must_pass(b, {rb}, frees - {rb}) is False and cf.must_pass(b, {rb}, frees):
                    notes.append('failure return at line %s frees the object' % sx.line(r))
                else:
                    viol = 'return NULL at line %s after a successful allocation without opus_free (leak)' % sx.line(r)
        # the pointer is dropped (ptr = NULL) only after it has been freed
        for b2, i2, m in cf.find(lambda m: m[0] == 'assign' and sx.kind(m[1]) == 'local' and m[1][2] == ptr and sx.int_val(m[2]) == 0):
            if not cf.dominates(b, b2):
                continue
            freed_here = any(sx.callee_name(x) in ('opus_free', 'free') for s_ in cf.blocks[b2]['stmts'][:i2] for x in sx.walk(s_) if x[0] == 'call')
            if freed_here or cf.must_pass(b, {b2}, frees - {b2}):
                notes.append('pointer dropped at line %s after opus_free' % sx.line(m))
            else:
                viol = 'the allocated object is dropped (`%s` at line %s) without opus_free on some path (leak)' % (sx.show(m), sx.line(m))
        # alloc failure reported
        errs = [m for b3, i3, m in cf.find(lambda m: m[0] == 'assign' and sx.kind(sx.strip_paren(m[1])) == 'deref' and sx.int_val(m[2]) == -7)]
        if f.param_index('error') is not None and not errs:
            viol = 'allocation failure is not reported as OPUS_ALLOC_FAIL'
        if viol:
            rep.violated('R11.6', inst0, f.where(), viol, key=fname + ':create')
        else:
            rep.holds('R11.6', inst0, f.where(), '; '.join(notes) or 'alloc checked, failure paths free, ALLOC_FAIL reported')


# ------------------------------------------------------------ R11.7

def r11_7(rep, prog, arms_by_disp):
    # settings = (Record, field) stored from the request value in a SET arm
    settings = {}
    for fname, (arms, an, cf) in arms_by_disp.items():
        for arm in arms:
            lid, ty = arm.value_local()
            if lid is None or ty not in ('opus_int32', 'int'):
                continue
            for b, i, n in arm.find(lambda n: n[0] == 'assign'):
                lv = sx.strip_paren(n[1])
                if sx.kind(lv) == 'field' and any(sx.kind(x) == 'local' and x[2] == lid for x in sx.walk(n[2])):
                    settings.setdefault((lv[2], lv[3]), set()).add(fname)
    writers = {}
    for f in prog.functions_all:
        for n in f.all_nodes():
            if n[0] in ('assign', 'cassign', 'inc'):
                lv = sx.strip_paren(n[1] if n[0] == 'assign' else (n[2] if n[0] == 'cassign' else n[3]))
                if sx.kind(lv) == 'field' and (lv[2], lv[3]) in settings:
                    writers.setdefault((lv[2], lv[3]), []).append((f, n))
    for (rec, fld), disp in sorted(settings.items()):
        allowed = set(disp)
        for r, inits in INIT_OF.items():
            allowed |= set(inits)
        allowed |= {'silk_InitEncoder', 'silk_init_encoder', 'silk_QueryEncoder'}
        outside = [(f, n) for f, n in writers.get((rec, fld), []) if f.name not in allowed and f.name not in DISPATCHERS]
        inst = '%s:setting %s.%s' % (prog.config, rec, fld)
        reason = OWNERSHIP_EXCEPTIONS.get((rec, fld))
        if not outside:
            rep.holds('R11.7', inst, None, 'assigned only in %s and init' % sorted(disp))
        elif reason:
            rep.holds('R11.7', inst + ' (frozen exception)', '%s:%s' % (outside[0][0].file, sx.line(outside[0][1])),
                      '%s; other writers: %s' % (reason, sorted({f.name for f, n in outside})))
        else:
            for f, n in outside:
                rep.violated('R11.7', inst, '%s:%s' % (f.file, sx.line(n)),
                             '%s assigns the user setting: `%s`' % (f.name, sx.show(n)[:70]), key='%s.%s:%s' % (rec, fld, f.name))
    return settings


# ------------------------------------------------------------ R11.8

BW_MIN = 1101     # OPUS_BANDWIDTH_NARROWBAND, the smallest enumerator


def _is_bw(e):
    e = sx.strip(e)
    return sx.kind(e) == 'field' and e[2] == 'OpusEncoder' and e[3] == 'bandwidth'


def _chain_head(cf, b):
    """first block of the `X && Y` chain whose last condition block is b"""
    while True:
        ps = cf.pred[b]
        if len(ps) != 1:
            return b
        p = ps[0]
        es = cf.edges(p)
        if len(es) != 2 or es[0][1] is None or cf.blocks[b]['stmts']:
            return b
        tgt_true = [s for s, pol in es if pol is True]
        tgt_false = [s for s, pol in es if pol is False]
        bf = [s for s, pol in cf.edges(b) if pol is False]
        if tgt_true == [b] and tgt_false and bf and tgt_false[0] == bf[0]:
            b = p
        else:
            return b


def r11_8(rep, prog):
    """bandwidth clamp chain of opus_encode_native: every path to the frame
    encoder passes the max-bandwidth cap and the four Nyquist caps, and every
    assignment to st->bandwidth after the cap is a lowering, the forced user
    bandwidth, or the documented CELT medium->wide exception"""
    f = prog.fn('opus_encode_native')
    rep.functions.add(f.name)
    cf = cfgm.CFG(f)
    sinks = {b for b, i, n in T.calls_to(cf, 'opus_encode_frame_native')}
    if not sinks:
        rep.unresolved('R11.8', 'no call to opus_encode_frame_native in opus_encode_native')
        return
    # assignments to st->bandwidth with the atoms controlling them
    asg = []
    for b, i, n in cf.find(lambda n: n[0] == 'assign' and _is_bw(n[1])):
        asg.append((b, i, n))
    caps = {}
    for b, i, n in asg:
        atoms = [a for a, gb in guards.facts_at(cf, b)]
        rhs = sx.strip(n[2])
        for (a, gb) in guards.facts_at(cf, b):
            op, l, r = a
            if op == '<' and r == sx.key(sx.strip(n[1])) and l == guards._okey(rhs):
                # `if (bandwidth > X) bandwidth = X`
                name = 'max_bandwidth' if (sx.kind(rhs) == 'field' and rhs[3] == 'max_bandwidth') else (sx.int_val(rhs))
                if name is not None:
                    caps[name] = (gb, b, n)
    want = ['max_bandwidth', 1104, 1103, 1102, 1101]
    for w in want:
        inst = '%s:every encoded frame passes the cap `bandwidth > %s -> %s`' % (prog.config, w, w)
        if w not in caps:
            rep.violated('R11.8', inst, f.where(), 'no `if (st->bandwidth > X) st->bandwidth = X` with X=%s found in opus_encode_native' % w, key='cap-missing:%s' % w)
            continue
        gb, b, n = caps[w]
        head = _chain_head(cf, gb)
        where = '%s:%s' % (f.file, sx.line(n))
        if cf.must_pass(cf.entry, sinks, {head}):
            rep.holds('R11.8', inst, where, 'the cap test (block %d) is on every path from entry to the %d frame-encoder call sites' % (head, len(sinks)))
        else:
            rep.violated('R11.8', inst, where, 'some path reaches opus_encode_frame_native without evaluating this cap (it is nested under another condition)', key='cap-bypass:%s' % w)
    if 'max_bandwidth' not in caps:
        return
    capb = caps['max_bandwidth'][1]
    after = cf.reachable_from(caps['max_bandwidth'][0])
    n_after = 0
    for b, i, n in asg:
        if b == capb or b not in after or not ((cf.reachable_from(b) | {b}) & sinks):
            continue
        n_after += 1
        rhs = sx.strip(n[2])
        atoms = [a for a, gb in guards.facts_at(cf, b)]
        where = '%s:%s' % (f.file, sx.line(n))
        inst = '%s:`%s` after the max-bandwidth cap cannot raise the bandwidth' % (prog.config, sx.show(n)[:60])
        why = None
        mm = T_minmax(rhs)
        if mm and mm[0] == 'min' and (_is_bw(mm[1]) or _is_bw(mm[2])):
            why = 'IMIN(st->bandwidth, .) lowers'
        elif sx.int_val(rhs) == BW_MIN:
            why = 'narrowband is the smallest bandwidth'
        elif sx.int_val(rhs) is not None and any(a == ('<', ('int', sx.int_val(rhs)), sx.key(sx.strip(n[1]))) for a in atoms):
            why = 'guarded by bandwidth > %d' % sx.int_val(rhs)
        elif sx.kind(rhs) == 'field' and rhs[3] == 'user_bandwidth':
            why = 'forced bandwidth (documented override; range-checked by its SET arm)'
        elif sx.int_val(rhs) == 1103 and any(a == ('==', sx.key(sx.strip(n[1])), ('int', 1102)) for a in atoms) \
                and any(a[0] == '==' and a[2] == ('int', 1002) for a in atoms):
            why = 'documented exception: the MDCT layer has no medium band and codes it as wideband'
        if why:
            rep.holds('R11.8', inst, where, why)
        else:
            rep.violated('R11.8', inst, where, 'assignment after the cap is neither a lowering nor the forced bandwidth nor the CELT medium->wide exception; facts here: %s' %
                         [T.show_atom(a) for a in atoms][:5], key='raise:%s' % sx.show(n)[:50])
    # the Nyquist caps are absolute: not even the forced bandwidth may follow them (the documented override only
    # beats the automatic decision and max_bandwidth, not the sampling rate of the encoder)
    for w in (1104, 1103, 1102, 1101):
        if w not in caps:
            continue
        gbw = caps[w][0]
        later = cf.reachable_from(gbw)
        for b, i, n in asg:
            rhs = sx.strip(n[2])
            if b in later and b != caps[w][1] and ((cf.reachable_from(b) | {b}) & sinks) and sx.kind(rhs) == 'field' and rhs[3] == 'user_bandwidth':
                rep.violated('R11.8', '%s:the forced bandwidth is applied before the Nyquist cap `bandwidth > %s`' % (prog.config, w), '%s:%s' % (f.file, sx.line(n)),
                             '`%s` is reachable after the cap test at line %s: a forced bandwidth above the encoder\'s Nyquist band is coded as such' % (sx.show(n)[:60], sx.line(caps[w][2])),
                             key='forced-after-nyquist:%s' % w)
                break
        else:
            rep.holds('R11.8', '%s:the forced bandwidth is applied before the Nyquist cap `bandwidth > %s`' % (prog.config, w), '%s:%s' % (f.file, sx.line(caps[w][2])), 'no store of user_bandwidth is reachable after the cap')
    # the packet emitted when the byte budget is too small for real coding is generated in opus_encode_native itself,
    # before the caps: its TOC must still be built from values that went through the same settings
    from .. import decide
    lb = [c for b, i, c in T.calls_to(cf, 'gen_toc') if sx.kind(sx.strip(c[2][0])) == 'local']
    for c in lb:
        def deps(e):
            seen, flds, work = set(), set(), [e]
            while work:
                x = work.pop()
                for y in sx.walk(x):
                    if sx.kind(y) == 'field':
                        flds.add(y[3])
                    if sx.kind(y) == 'local' and y[2] not in seen:
                        seen.add(y[2])
                        work += [r for lv, r in decide.find_assign(f, y[1])]
            return flds
        where = '%s:%s' % (f.file, sx.line(c))
        fb = deps(c[2][2])
        need = {'max_bandwidth', 'user_bandwidth', 'Fs'}
        inst = '%s:the low-budget packet announces a bandwidth that went through the forced / maximum / Nyquist limits' % prog.config
        if need <= fb:
            rep.holds('R11.8', inst, where, 'bandwidth argument depends on %s' % sorted(fb))
        else:
            rep.violated('R11.8', inst, where, 'the bandwidth passed to gen_toc depends only on %s - not on %s: this packet announces the previous (initially fullband) bandwidth whatever the settings' % (sorted(fb), sorted(need - fb)),
                         key='lowbudget-toc-bandwidth')
        fm = deps(c[2][0])
        inst = '%s:the low-budget packet of a low-delay encoder announces the MDCT layer' % prog.config
        if 'application' in fm:
            rep.holds('R11.8', inst, where, 'mode argument depends on %s' % sorted(fm))
        else:
            rep.violated('R11.8', inst, where, 'the mode passed to gen_toc depends only on %s, not on the application: a RESTRICTED_LOWDELAY encoder announces the previous (initially hybrid) mode here' % sorted(fm), key='lowbudget-toc-mode')
        fc = deps(c[2][3])
        inst = '%s:the low-budget packet announces the forced channel count' % prog.config
        if 'force_channels' in fc:
            rep.holds('R11.8', inst, where, 'channel argument depends on %s' % sorted(fc))
        else:
            rep.violated('R11.8', inst, where, 'the channel count passed to gen_toc depends only on %s, not on force_channels: a forced-mono stereo encoder announces stereo here' % sorted(fc), key='lowbudget-toc-channels')
    # decide_fec receives &st->bandwidth: it may only decrement or restore it
    if prog.has_fn('decide_fec'):
        g = prog.fn('decide_fec')
        pi = g.param_index('bandwidth')
        bad = []
        nst = 0
        for n in g.all_nodes():
            if n[0] in ('assign', 'cassign', 'inc'):
                lv = sx.strip_paren(n[1] if n[0] == 'assign' else (n[2] if n[0] == 'cassign' else n[3]))
                if sx.kind(lv) == 'deref' and sx.key(sx.strip(lv[1])) == ('param', pi):
                    nst += 1
                    if n[0] == 'inc' and n[1] == '--':
                        continue
                    if n[0] == 'assign' and sx.kind(sx.strip(n[2])) == 'local':
                        lid = sx.strip(n[2])[2]
                        defs = [m for m in g.all_nodes() if (m[0] == 'assign' and sx.kind(m[1]) == 'local' and m[1][2] == lid)] + \
                               [d for m in g.all_nodes() if m[0] == 'decls' for d in m[1] if d[0] == 'decl' and d[2] == lid and d[3] is not None]
                        if len(defs) == 1 and sx.key(sx.strip(defs[0][2] if defs[0][0] == 'assign' else defs[0][3])) == ('deref', ('param', pi)):
                            continue
                    bad.append(sx.show(n)[:50])
        if bad:
            rep.violated('R11.8', '%s:decide_fec only lowers or restores *bandwidth' % prog.config, g.where(), 'stores: %s' % bad, key='decide_fec')
        elif nst:
            rep.holds('R11.8', '%s:decide_fec only lowers or restores *bandwidth' % prog.config, g.where(), '%d stores: decrement or restore of the entry value' % nst)
    # nothing else takes the address of the field
    esc = [n for n in f.all_nodes() if n[0] == 'addr' and _is_bw(n[1])]
    callers = [c for c in f.calls() if any(sx.kind(sx.strip(a)) == 'addr' and _is_bw(sx.strip(a)[1]) for a in c[2])]
    if len(esc) != len(callers) or any(sx.callee_name(c) != 'decide_fec' for c in callers):
        rep.violated('R11.8', '%s:&st->bandwidth is passed to decide_fec only' % prog.config, f.where(), '%d address-of, callees %s' % (len(esc), [sx.callee_name(c) for c in callers]), key='bw-escape')
    else:
        rep.holds('R11.8', '%s:&st->bandwidth is passed to decide_fec only' % prog.config, f.where(), None)
    if n_after < 6:
        rep.unresolved('R11.8', 'only %d assignments to st->bandwidth after the cap (expected the Nyquist / hybrid / detected-bandwidth steps)' % n_after)


def T_minmax(e):
    """('min'|'max', a, b) for the IMIN/IMAX/silk_min/silk_max expansion  (a) < (b) ? (a) : (b)"""
    e = sx.strip(e)
    if sx.kind(e) != 'cond':
        return None
    c = sx.strip(e[1])
    if sx.kind(c) != 'bin' or c[1] not in ('<', '>', '<=', '>='):
        return None
    a, b = sx.key(sx.strip(c[2])), sx.key(sx.strip(c[3]))
    x, y = sx.key(sx.strip(e[2])), sx.key(sx.strip(e[3]))
    if (x, y) == (a, b):
        return ('min' if c[1] in ('<', '<=') else 'max', sx.strip(c[2]), sx.strip(c[3]))
    if (x, y) == (b, a):
        return ('max' if c[1] in ('<', '<=') else 'min', sx.strip(c[2]), sx.strip(c[3]))
    return None


# ------------------------------------------------------------ R11.9

def r11_9(rep, prog, arms_by_disp):
    """forwarding arms of the multistream dispatchers: a request applied stream
    by stream with an early error exit is atomic only if the sub-object's
    validation cannot differ between streams"""
    sub = {'opus_multistream_encoder_ctl_va_list': ('opus_encoder_ctl', 'OpusEncoder'),
           'opus_multistream_decoder_ctl_va_list': ('opus_decoder_ctl', 'OpusDecoder')}
    for ms, (subname, subrec) in sub.items():
        if ms not in arms_by_disp or subname not in arms_by_disp:
            continue
        arms, an, cf = arms_by_disp[ms]
        sarms, san, scf = arms_by_disp[subname]
        f = prog.fn(ms)
        for arm in arms:
            lid, ty = arm.value_local()
            if lid is None or ty not in ('opus_int32', 'int'):
                continue
            fw = [n for b, i, n in arm.find(lambda n: n[0] == 'call' and sx.callee_name(n) == subname)]
            if not fw:
                continue
            for name in arm.names:
                if '_SET_' not in name:
                    continue
                sa = [a for a in sarms if name in a.names]
                where = '%s:%s' % (f.file, arm.line())
                inst = '%s:%s forwards %s to every stream' % (prog.config, ms, name)
                if not sa:
                    rep.violated('R11.9', inst, where, '%s has no arm for the forwarded request' % subname, key='%s:%s:noarm' % (ms, name))
                    continue
                a = sa[0]
                # state fields read by the conditions of the sub-arm that lead to bad_arg
                reads = set()
                for b in a.blocks:
                    c = scf.cond(b)
                    if c is None:
                        continue
                    for x in sx.walk(c):
                        if sx.kind(x) == 'field' and x[2] == subrec:
                            reads.add(x[3])
                varying = {'channels', 'lfe', 'stream_channels'}     # differ between coupled / mono / LFE streams by construction
                bad = sorted(reads & varying)
                if bad:
                    rep.violated('R11.9', inst, where,
                                 'validated per stream against %s.%s, which differs between coupled and mono streams: a rejected request is already applied to the earlier streams' % (subrec, ','.join(bad)),
                                 key='%s:%s' % (ms, name))
                else:
                    rep.holds('R11.9', inst, where, 'sub-arm validation reads only the value%s' % ((' and ' + ','.join(sorted(reads))) if reads else ''))


# ------------------------------------------------------------------ R11.10 / R11.11
try:
    _SAVE_RESTORE = json.load(open(os.path.join(os.path.dirname(os.path.dirname(os.path.dirname(os.path.abspath(__file__)))), 'spec', 'c11_save_restore.json')))['pairs']
except (OSError, ValueError, KeyError):
    _SAVE_RESTORE = []


def r11_14(rep, prog, arms_by_disp):
    """"applies a legal value, which the matching getter then reports" on multistream objects: for every SET request the
    multistream dispatcher forwards to its stream objects, the GET request of the same name - when the stream object's own
    dispatcher implements it - must be implemented by the multistream dispatcher too (it is answered `unimplemented`
    otherwise, although the setting was applied)."""
    n = 0
    sub = {'opus_multistream_encoder_ctl_va_list': 'opus_encoder_ctl', 'opus_multistream_decoder_ctl_va_list': 'opus_decoder_ctl'}
    for ms, subname in sub.items():
        if ms not in arms_by_disp or subname not in arms_by_disp:
            continue
        arms = arms_by_disp[ms][0]
        sarms = arms_by_disp[subname][0]
        f = prog.fn(ms)
        have = {nm for a in arms for nm in a.names}
        subhave = {nm for a in sarms for nm in a.names}
        for arm in arms:
            if not any(sx.callee_name(c) == subname for b, i, c in arm.find(lambda x: x[0] == 'call')):
                continue
            for name in arm.names:
                if '_SET_' not in name:
                    continue
                g = name.replace('_SET_', '_GET_')
                if g not in subhave:
                    continue              # the stream object has no such getter either (private request)
                n += 1
                inst = '%s:%s answers %s, the getter of a request it forwards' % (prog.config, ms, g)
                where = '%s:%s' % (f.file, arm.line())
                if g in have:
                    rep.holds('R11.14', inst, where, None)
                else:
                    rep.violated('R11.14', inst, where, '%s is applied to every stream but %s falls into the default arm: OPUS_UNIMPLEMENTED, the applied value cannot be read back' % (name, g), key='%s:%s:nogetter' % (ms, g))
    return n


def r11_10(rep, prog):
    """a field saved into a local and then overwritten inside the same call (`bak = st->f; ... st->f = x; ... st->f = bak`)
    is restored on every live path from each overwrite to the function's exits.  The per-call overrides of the encoder
    (forced mode / bandwidth / channels of the multi-frame path, the stereo-to-mono hand-over flag) must not leak into
    the next call: a forced channel count set mid-stream would otherwise never take effect."""
    n = 0
    matched = set()
    for f in prog.functions_all:
        if not f.file.startswith('src/opus_encoder.c') and not f.file.startswith('src/opus_multistream_encoder.c'):
            continue
        cf = None
        for l in f.locals.values():
            if '*' in l['type'] or '[' in l['type']:
                continue
            saves = []
            for lv, r in decide.find_assign(f, l['name']):
                rr = sx.strip(r)
                if sx.kind(rr) == 'field' and sx.A(rr).get('t') != 'a':
                    saves.append(rr)
            if len(saves) != 1 or len(decide.find_assign(f, l['name'])) != 1:
                continue
            fk = sx.key(saves[0])
            if cf is None:
                cf = cfgm.CFG(f)
            spos = [(b, i) for b, i, s_ in cf.positions() if s_[0] == 'assign' and sx.kind(sx.strip(s_[1])) == 'local' and sx.strip(s_[1])[2] == l['id']]
            if not spos:
                continue
            stores = [(b, i, s_) for b, i, s_ in cf.positions() for x in [s_] if x[0] in ('assign', 'cassign') and sx.key(sx.strip(x[1] if x[0] == 'assign' else x[2])) == fk
                      and cf.pos_dominates(spos[0], (b, i)) and (b, i) != spos[0]]
            restores = [(b, i, s_) for b, i, s_ in stores if s_[0] == 'assign' and sx.kind(sx.strip(s_[2])) == 'local' and sx.strip(s_[2])[2] == l['id']]
            others = [x for x in stores if x not in restores]
            frozen = any(p_['function'] == f.name and p_['field'] == saves[0][3] for p_ in _SAVE_RESTORE)
            if not others or (not restores and not frozen):
                continue      # saved but never overwritten (a read-out), or read-then-update of state with no restore at all: not the idiom
            n += 1
            rep.functions.add(f.name)
            inst = '%s:%s restores `%s` from `%s` after overriding it' % (prog.config, f.name, sx.show(saves[0]), l['name'])
            where = '%s:%s' % (f.file, sx.line(others[0][2]))
            # exits that hand back a result: failure returns (negative constants) abandon the call, their state is not specified
            exits = {b2 for b2, i2, r_ in T.returns_of(cf) if not (len(r_) > 1 and (sx.int_val(sx.strip(r_[1])) or 0) < 0)}
            rb = {b for b, i, s_ in restores}
            bad = [o for o in others if not rb or not (o[0] in rb and any(r[0] == o[0] and r[1] > o[1] for r in restores)) and not cf.must_pass_live(o[0], exits, rb)]
            if bad:
                rep.violated('R11.10', inst, '%s:%s' % (f.file, sx.line(bad[0][2])), 'the override `%s` can reach the end of the call without `%s = %s`: the per-call override persists into later calls' % (
                    sx.show(bad[0][2])[:60], sx.show(saves[0]), l['name']), key='%s:%s:restore' % (f.name, l['name']))
            else:
                rep.holds('R11.10', inst, where, '%d override(s), %d restore(s) on every live path' % (len(others), len(restores)))
            matched.add((f.name, saves[0][3]))
    # a frozen pair whose save has disappeared: the per-frame override inside the multi-frame loop must have gone with it
    for p_ in _SAVE_RESTORE:
        if (p_['function'], p_['field']) in matched or not prog.has_fn(p_['function']):
            continue
        f = prog.fn(p_['function'])
        cf = cfgm.CFG(f)
        inloop = set()
        for h, latch, body in cf.natural_loops():
            inloop |= body
        ov = [(b, i, x) for b, i, x in cf.find(lambda x: x[0] in ('assign', 'cassign') and sx.kind(sx.strip_paren(x[1] if x[0] == 'assign' else x[2])) == 'field'
                                                and sx.strip_paren(x[1] if x[0] == 'assign' else x[2])[3] == p_['field']) if b in inloop]
        n += 1
        inst = '%s:%s restores `%s` after overriding it (frozen instance)' % (prog.config, f.name, p_['field'])
        if ov:
            rep.violated('R11.10', inst, '%s:%s' % (f.file, sx.line(ov[0][2])), 'the field is still overridden per frame (`%s`) but is no longer saved before and restored after the loop: the override persists into later calls' % sx.show(ov[0][2])[:50],
                         key='%s:%s:restore' % (f.name, p_['field']))
        else:
            rep.holds('R11.10', inst, f.where(), 'neither saved nor overridden per frame any more')
    return n


def r11_11(rep, prog):
    """the SILK internal rate follows the bandwidth decided for the frame and is afterwards only LOWERED: every later store
    into silk_mode.desiredInternalSampleRate in the frame encoder is IMIN(constant, itself).  A plain store of a rate cap
    raises a narrowband request to medium band."""
    f = prog.fn('opus_encode_frame_native')
    cf = cfgm.CFG(f)
    rep.functions.add(f.name)
    st_ = [(b, i, n) for b, i, n in cf.find(lambda n: n[0] == 'assign' and sx.kind(sx.strip(n[1])) == 'field' and sx.strip(n[1])[3] == 'desiredInternalSampleRate')]
    consts = [x for x in st_ if sx.int_val(sx.strip(x[2][2])) is not None]
    later = [x for x in st_ if x not in consts]
    n = 0
    # the constant stores are the bandwidth-derived ones: each is guarded by a test of the bandwidth
    first_ok = all(any('bandwidth' in sx.show(c) for c, pol, gb in cfgm.guards_of(cf, b) if c is not None) for b, i, x in consts)
    for b, i, x in later + [c for c in consts if not any('bandwidth' in sx.show(g) for g, pol, gb in cfgm.guards_of(cf, c[0]) if g is not None)]:
        n += 1
        mm = T_minmax(x[2])
        inst = '%s:opus_encode_frame_native only lowers the SILK internal rate after deriving it from the bandwidth (`%s`)' % (prog.config, sx.show(x)[:60])
        where = '%s:%s' % (f.file, sx.line(x))
        if mm and mm[0] == 'min' and (sx.key(mm[1]) == sx.key(sx.strip(x[1])) or sx.key(mm[2]) == sx.key(sx.strip(x[1]))):
            rep.holds('R11.11', inst, where, 'IMIN(., itself)')
        else:
            rep.violated('R11.11', inst, where, 'not of the form IMIN(cap, st->silk_mode.desiredInternalSampleRate): a rate-dependent cap can RAISE the rate chosen for a narrower bandwidth limit', key='silk-rate-raise:%s' % sx.line(x))
    if len(consts) < 3:
        rep.unresolved('R11.11', 'bandwidth-derived stores of desiredInternalSampleRate not found (%d)' % len(consts))
    return n


# ------------------------------------------------------------------ R11.12
# request numbers are part of the public ABI (include/opus_defines.h, src/opus_private.h)
USER_SETTINGS_REQ = {4008: 'bandwidth', 4004: 'max bandwidth', 4022: 'forced channel count', 11002: 'forced mode', 4006: 'VBR', 4020: 'VBR constraint',
                     4010: 'complexity', 4024: 'signal type', 4012: 'in-band FEC', 4016: 'DTX', 4014: 'loss percentage', 4036: 'LSB depth',
                     4042: 'prediction', 4046: 'phase inversion', 4040: 'frame duration'}
OWN_REQ = {4002: 'bitrate (the per-stream split)', 10026: 'energy mask', 10024: 'LFE flag'}


def r11_12(rep, prog):
    """a multistream encode call does not overwrite, on its stream encoders, a setting the user can make through
    opus_multistream_encoder_ctl: those settings were forwarded to the streams by the ctl and bind the packets.  (The
    per-stream bitrate and the internal energy mask are the encoder's own business and are not user settings of a stream.)"""
    if not prog.has_fn('opus_multistream_encode_native'):
        return 0
    f = prog.fn('opus_multistream_encode_native')
    rep.functions.add(f.name)
    n = 0
    seen = set()
    for c in f.calls():
        if sx.callee_name(c) != 'opus_encoder_ctl' or len(c[2]) < 2:
            continue
        req = sx.int_val(c[2][1])
        if req is None or req % 2 == 1 or req in seen:      # odd numbers are GET requests
            continue
        seen.add(req)
        n += 1
        inst = '%s:opus_multistream_encode_native leaves the user\'s %s of each stream alone' % (prog.config, USER_SETTINGS_REQ.get(req, OWN_REQ.get(req, 'request %d' % req)))
        where = '%s:%s' % (f.file, sx.line(c))
        if req in USER_SETTINGS_REQ:
            rep.violated('R11.12', inst, where, 'every encode call issues request %d (set %s) on the stream encoders (surround mapping): the value set through opus_multistream_encoder_ctl before the first frame does not bind the packets' % (
                req, USER_SETTINGS_REQ[req]), key='ms-encode-overrides:%d' % req)
        elif req in OWN_REQ:
            rep.holds('R11.12', inst, where, 'the encoder\'s own per-frame parameter')
        else:
            rep.unresolved('R11.12', inst + ': unknown request number')
    if n == 0:
        rep.holds('R11.12', '%s:opus_multistream_encode_native issues no SET request for a user setting on its streams' % prog.config, f.where(), None)
        n = 1
    return n


# ------------------------------------------------------------------ R11.13
def r11_13(rep, prog):
    """"a forced channel count changed mid-stream takes effect within three packets": the stereo->mono transition of
    opus_encode_native is delayed by exactly one frame through `prev_channels` (it re-arms whenever prev_channels is
    still 2 and the frame wants 1).  So every return of the frame encoder that emits a packet - it stores a TOC built from
    stream_channels - must have recorded `prev_channels = stream_channels` on every path leading to it; a return that
    skips the record makes the delay re-arm every second packet for as long as that return is taken."""
    n = 0
    for f in prog.functions_all:
        if not f.file.startswith('src/opus_encoder'):
            continue
        rec = set()
        cf = None
        for x in f.all_nodes():
            if x[0] == 'assign' and sx.kind(sx.strip_paren(x[1])) == 'field' and sx.strip_paren(x[1])[3] == 'prev_channels' \
                    and sx.kind(sx.strip(x[2])) == 'field' and sx.strip(x[2])[3] == 'stream_channels':
                cf = cf or cfgm.CFG(f)
        if cf is None:
            continue
        for b, i, x in cf.find(lambda x: x[0] == 'assign' and sx.kind(sx.strip_paren(x[1])) == 'field' and sx.strip_paren(x[1])[3] == 'prev_channels'
                               and sx.kind(sx.strip(x[2])) == 'field' and sx.strip(x[2])[3] == 'stream_channels'):
            rec.add(b)
        rep.functions.add(f.name)
        # packet-emitting returns: the TOC store `data[k] = gen_toc(..)` precedes them in the same block or dominates them
        tocs = {b for b, i, x in cf.find(lambda x: sx.kind(x) == 'call' and sx.callee_name(x) == 'gen_toc')}
        cands = []
        for b, i, r in T.returns_of(cf):
            v = sx.strip(r[1]) if len(r) > 1 and r[1] is not None else None
            if v is None or (sx.int_val(v) is not None and sx.int_val(v) < 0):
                continue
            if not any(t == b or cf.dominates(t, b) for t in tocs):
                continue
            cands.append((b, i, r, v))
        # only the function that does the end-of-frame bookkeeping (some emitting return is always preceded by the record)
        if not any(cf.must_pass_live(cf.entry, {b}, rec) or b in rec for b, i, r, v in cands):
            continue
        for b, i, r, v in cands:
            n += 1
            inst = '%s:%s records the signalled channel count before the packet-emitting return at line %s' % (prog.config, f.name, sx.line(r))
            where = '%s:%s' % (f.file, sx.line(r))
            if cf.must_pass_live(cf.entry, {b}, rec) or b in rec:
                rep.holds('R11.13', inst, where, '`prev_channels = stream_channels` on every path to this return')
            else:
                rep.violated('R11.13', inst, where, 'this return emits a packet (TOC with stream_channels) without recording prev_channels: after a forced change to mono the one-frame stereo->mono delay re-arms on every packet that follows such a return (SILK DTX frames), so stereo packets keep coming',
                             key='%s:prev-channels:%s' % (f.name, 'dtx' if sx.int_val(v) == 1 else 'ret'))
    return n


# ------------------------------------------------------------------ R11.15
def r11_15(rep, prog):
    """"its bandwidth never exceeds the forced or maximum bandwidth": the Opus layer turns both into SILK's desired internal
    rate; SILK's rate state machine moves one step at a time towards it.  Partitioned interval analysis of
    silk_control_audio_bandwidth over every (current, desired, maximum, API) rate: the rate it returns never lies above
    both the current and the desired one."""
    from .. import absint
    fname = 'silk_control_audio_bandwidth'
    if not prog.has_fn(fname):
        rep.unresolved('R11.15', '%s: %s not found' % (prog.config, fname))
        return 0
    f = prog.fn(fname)
    rep.functions.add(fname)
    keys = {}
    for n in f.all_nodes():
        if sx.kind(n) == 'field' and n[3] in ('fs_kHz', 'desiredInternal_fs_Hz', 'maxInternal_fs_Hz', 'minInternal_fs_Hz', 'API_fs_Hz') and sx.kind(sx.strip(n[1])) == 'param':
            keys[n[3]] = sx.key(n)
    inst = '%s:%s never returns a rate above both the current and the desired one' % (prog.config, fname)
    if len(keys) < 5:
        rep.unresolved('R11.15', inst + ': state fields not found (%s)' % sorted(keys))
        return 0
    n = 0
    bad = None
    for o in (8, 12, 16):
        for d in (8000, 12000, 16000):
            for m in (8000, 12000, 16000):
                if d > m:
                    continue
                for api in (8000, 12000, 16000, 24000, 48000):
                    entry = {keys['fs_kHz']: absint.const(o), keys['desiredInternal_fs_Hz']: absint.const(d), keys['maxInternal_fs_Hz']: absint.const(m),
                             keys['minInternal_fs_Hz']: absint.const(8000), keys['API_fs_Hz']: absint.const(api)}
                    an = absint.Analyzer(prog, f, entry_state=entry, havoc_fields_on_call=False, preserve_fields=tuple(keys))
                    hi = None
                    for b, i, r in T.returns_of(an.cf):
                        st = an.state_before_node(b, i, r)
                        if st is None or len(r) < 2:
                            continue
                        v = an.ev(r[1], st)
                        hi = absint.hi(v) if hi is None else max(hi, absint.hi(v))
                    n += 1
                    if hi is None:
                        continue
                    if hi * 1000 > max(d, o * 1000) and bad is None:
                        bad = (o, d, m, api, hi)
    if bad:
        rep.violated('R11.15', inst, f.where(), 'at %d kHz with desired rate %d Hz (maximum %d, API %d) the function can return %d kHz: packets are signalled with a bandwidth above the one the maximum / forced bandwidth setting asked for' % bad,
                     key='silk-rate-overshoot')
    else:
        rep.holds('R11.15', inst, f.where(), '%d (current, desired, maximum, API) cases' % n, n=1)
    return n


# ------------------------------------------------------------------ R11.16
def r11_16(rep, prog):
    """"the packet's duration is the requested one": every public encode entry point (16-bit, 24-bit, float; the set differs
    between the float, fixed-point and RES24 builds) selects the frame size with frame_size_select() and hands THAT to the
    native encoder as the size to code, and its own argument as the size of the analysis buffer.  Sibling agreement of the
    call-site arguments, in each configuration."""
    n = 0
    if not prog.has_fn('opus_encode_native'):
        return 0
    nat = prog.fn('opus_encode_native')
    kf, ka = nat.param_index('frame_size'), nat.param_index('analysis_size')
    if ka is None:
        ka = nat.param_index('analysis_frame_size')
    if kf is None or ka is None:
        rep.unresolved('R11.16', '%s: opus_encode_native parameters not found' % prog.config)
        return 0
    for f in prog.functions_all:
        if not f.file.startswith('src/opus_encoder'):
            continue
        calls = [c for c in f.calls() if sx.callee_name(c) == 'opus_encode_native']
        sel = decide.find_assign(f, 'frame_size', lambda e: any(sx.kind(y) == 'call' and sx.callee_name(y) == 'frame_size_select' for y in sx.walk(e)))
        if not calls or not any(sx.callee_name(c) == 'frame_size_select' for c in f.calls()):
            continue
        pa = f.param_index('analysis_frame_size')
        for c in calls:
            n += 1
            rep.functions.add(f.name)
            a_f, a_a = sx.strip(c[2][kf]), sx.strip(c[2][ka])
            inst = '%s:%s codes the frame size it selected and analyses the buffer it was given' % (prog.config, f.name)
            where = '%s:%s' % (f.file, sx.line(c))
            sel_locals = {sx.strip(lv)[2] for lv, r in sel if sx.kind(sx.strip(lv)) == 'local'}
            ok_f = sx.kind(a_f) == 'local' and a_f[2] in sel_locals
            ok_a = pa is not None and sx.kind(a_a) == 'param' and a_a[1] == pa
            if ok_f and ok_a:
                rep.holds('R11.16', inst, where, 'frame_size = `%s`, analysis size = `%s`' % (sx.show(a_f), sx.show(a_a)))
            else:
                rep.violated('R11.16', inst, where, 'passes `%s` as the size to code and `%s` as the analysis size: with OPUS_SET_EXPERT_FRAME_DURATION the packet lasts as long as the buffer handed in, not as long as requested' % (sx.show(a_f)[:30], sx.show(a_a)[:30]),
                             key='%s:frame-size-argument' % f.name)
    return n


def check(rep, prog, tier):
    r11_16(rep, prog)
    r11_15(rep, prog)
    r11_13(rep, prog)
    r11_12(rep, prog)
    r11_10(rep, prog)
    r11_11(rep, prog)
    arms_by_disp = {}
    for fname in DISPATCHERS:
        if not prog.has_fn(fname):
            rep.unresolved('R11.1', 'dispatcher %s not found' % fname)
            continue
        arms_by_disp[fname] = analyse_dispatcher(rep, prog, fname)
    r11_6(rep, prog)
    r11_7(rep, prog, arms_by_disp)
    r11_8(rep, prog)
    r11_9(rep, prog, arms_by_disp)
    r11_14(rep, prog, arms_by_disp)
