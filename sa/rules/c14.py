"""C14 — independent codec instances do not interfere.

Static argument: two threads driving two distinct codec objects can only race
on memory reachable from both; each object is one caller-owned block and all
scratch is on the caller's stack, so the only common memory is static storage.
Obligations (DESIGN.md section 5, C14):
  O14.1 every static-storage object is const or use-classified read-only
  O14.2 no store's lvalue may denote a static-storage object (points-to)
  O14.3 no static object's address reaches an external writer
  O14.4 no libc routine with hidden static state is called
  O14.5 NONTHREADSAFE_PSEUDOSTACK is not configured
  O14.6 inline asm writes registers/locals only
plus a positive control that must be flagged on every run.
"""
import os
from .. import compdb, sx
from ..facts import Program
from ..pts import PointsTo
from ..compdb import AnalysisBroken

EXPLANATION = (
    'Decided as a whole for the configurations parsed: (O14.1) every variable with static storage duration in every '
    'library TU is const-qualified or is never the target of a store and never escapes to an external writer; '
    '(O14.2/3) no assignment, compound assignment, ++/--, mem*/intrinsic-store destination or asm output in any '
    'library function has an lvalue that may denote static storage, using a whole-program field-based may-point-to '
    'analysis through locals, parameters, returns, struct fields, const pointer tables and function-pointer tables; '
    '(O14.4) no call to a libc routine with hidden state; (O14.5) the pseudostack allocator is not configured; '
    '(O14.6) inline asm has register/local outputs only.  Hence distinct codec objects share only read-only memory. '
    'Trusted: malloc/free/mem*/libm are thread-safe; the caller honours one thread per object; pointers are not '
    'laundered through integers, unions or varargs.')

DENY = {'rand', 'srand', 'random', 'srandom', 'drand48', 'lrand48', 'strtok', 'localtime', 'gmtime', 'asctime',
        'ctime', 'setlocale', 'strerror', 'getenv', 'setenv', 'putenv', 'tmpnam', 'readdir', 'getpwnam',
        'gethostbyname', 'signal', 'atexit', 'exit'}

# objects of the C library that the repository only references (never
# defines); they are outside O14.1's universe.  celt_fatal() prints to stderr
# and aborts.
LIBC_OBJECTS = {'stderr', 'stdout', 'stdin'}

CONTROL = os.path.join(compdb.VERIF, 'selftest', 'c14_control.c')


def analyse(prog, rep, label, is_control=False):
    pt = PointsTo(prog)
    rep.used(prog) if not is_control else None
    hits = {}      # global -> list of sites
    nstores = 0
    per_fn = {}
    for f in prog.functions_all:
        n = 0
        bad = []
        for lv, node, how in pt.stores(f):
            n += 1
            o = {x for x in pt.objs(f, lv) if not x.startswith(('F:', 'P:'))}
            o -= LIBC_OBJECTS
            if o:
                ln = sx.line(node)
                bad.append((ln, how, sorted(o), sx.show(node)[:120]))
                for g in o:
                    hits.setdefault(g, []).append((f, ln, how))
        nstores += n
        per_fn[(f.file, f.name)] = (f, n, bad)
    return pt, hits, nstores, per_fn


def check(rep, prog, tier):
    config = prog.config
    pt, hits, nstores, per_fn = analyse(prog, rep, config)
    rep.count(nstores)
    # O14.2 / O14.3: per function
    for (file, name), (f, n, bad) in sorted(per_fn.items()):
        rep.functions.add(name)
        if bad:
            for ln, how, objs, text in bad:
                rule = 'O14.3' if how.startswith('extern:') else 'O14.2'
                rep.violated(rule, '%s:%s writes static storage %s' % (config, name, ','.join(objs)),
                             '%s:%s' % (file, ln), '%s: %s' % (how, text), key='%s:%s' % (name, ','.join(objs)))
        elif n:
            rep.holds('O14.2', '%s:%s' % (config, name), f.where(), '%d stores, none may denote static storage' % n)
    # O14.1: per static object defined in a library TU
    nconst = nro = 0
    for gname, defs in sorted(prog.global_defs.items()):
        g = defs[0][1]
        where = g['loc']
        ptr_ok = True
        if g.get('elem_ptr') and not g.get('pointee_const'):
            ptr_ok = False  # pointer to mutable data inside a const table: targets are checked by O14.2 anyway
        if gname in hits:
            # already reported under O14.2 with the writing site
            rep.violated('O14.1', '%s:%s' % (config, gname), where,
                         'static object is written at ' + ', '.join('%s:%s' % (f.file, ln) for f, ln, how in hits[gname][:4]),
                         key=gname)
            continue
        if g['const']:
            nconst += 1
            rep.holds('O14.1', '%s:%s' % (config, gname), where, 'const-qualified %s%s' % (g['type'], '' if ptr_ok else ' (non-const pointee; targets covered by O14.2)'))
        else:
            nro += 1
            rep.holds('O14.1', '%s:%s' % (config, gname), where,
                      'declared without const (%s) but use-classified read-only: no store in any of %d functions may denote it' %
                      (g['type'], len(prog.functions_all)))
    rep.extra.setdefault('static_objects', {})[config] = {'const': nconst, 'nonconst_readonly': nro,
                                                          'nonconst_names': sorted(n for n, d in prog.global_defs.items() if not d[0][1]['const'])}
    # O14.4 deny-list
    denied = []
    ncalls = 0
    for f in prog.functions_all:
        for c in f.calls():
            ncalls += 1
            n = sx.callee_name(c)
            if n in DENY:
                denied.append((f, n, sx.line(c)))
    rep.count(ncalls)
    if denied:
        for f, n, ln in denied:
            rep.violated('O14.4', '%s:%s calls %s' % (config, f.name, n), '%s:%s' % (f.file, ln),
                         'libc routine with hidden static state', key='%s:%s' % (f.name, n))
    else:
        rep.holds('O14.4', config, None, '%d call sites, none to %d denied libc routines' % (ncalls, len(DENY)))
    # unresolved indirect calls weaken O14.2's parameter propagation
    unres = []
    for f in prog.functions_all:
        for c in f.calls():
            fs, ext, ok = prog.callees(f, c)
            if not ok:
                unres.append('%s:%s %s' % (f.file, sx.line(c), sx.show(c)[:60]))
    if unres:
        rep.unresolved('O14.2', 'indirect calls that cannot be resolved to a function set in %s: %s' % (config, unres[:5]))
    # O14.5 configuration
    if 'NONTHREADSAFE_PSEUDOSTACK' in prog.macros:
        rep.violated('O14.5', config, 'config', 'NONTHREADSAFE_PSEUDOSTACK is defined', key=config)
    else:
        rep.holds('O14.5', config, None, 'NONTHREADSAFE_PSEUDOSTACK not defined in any of %d units' % len(prog.units))
    # O14.6 inline asm
    nasm = 0
    for f in prog.functions_all:
        for n in f.all_nodes():
            if n[0] == 'asm':
                nasm += 1
                outs, ins, clob = n[1], n[2], n[3]
                problems = []
                if any(c == 'memory' for c in clob):
                    problems.append('memory clobber')
                for cons, e in outs + ins:
                    if 'm' in cons.replace('=', '').replace('+', '') and cons.strip('=+&') in ('m', 'o', 'V'):
                        problems.append('memory operand %s' % sx.show(e))
                    o = {x for x in (pt.objs(f, e) | pt.pts(f, e)) if not x.startswith(('F:', 'P:'))}
                    if o:
                        problems.append('operand denotes static storage %s' % sorted(o))
                if problems:
                    rep.violated('O14.6', '%s:%s asm' % (config, f.name), f.where(), '; '.join(problems), key=f.name)
                else:
                    rep.holds('O14.6', '%s:%s asm' % (config, f.name), f.where(),
                              'outputs %s are locals/out-params, no memory clobber' % [sx.show(e) for c, e in outs])
    # CPU detection stores only into the calling object
    for name in ('opus_select_arch',):
        if prog.has_fn(name):
            f = prog.fn(name)
            rep.holds('O14.6', '%s:%s' % (config, name), f.where(), 'covered by O14.2: %d stores, all to locals' % per_fn[(f.file, f.name)][1])
    return prog


def control(rep):
    tu = compdb.extract_snippet(open(CONTROL).read())
    prog = Program.from_tus({'control.c': tu}, 'control')
    pt, hits, nstores, per_fn = analyse(prog, rep, 'control', is_control=True)
    missed, false_alarm = [], []
    for (file, name), (f, n, bad) in per_fn.items():
        if name.startswith('bad_') and not bad:
            missed.append(name)
        if name.startswith('ok_') and bad:
            false_alarm.append(name)
    nb = sum(1 for (f_, n_) in per_fn if n_.startswith('bad_'))
    rep.extra['positive_control'] = {'bad_functions': nb, 'flagged': nb - len(missed), 'missed': missed, 'false_alarms': false_alarm}
    if missed or false_alarm or nb < 10:
        rep.unresolved('control', 'positive control not reproduced: missed=%s false_alarms=%s bad=%d' % (missed, false_alarm, nb))


LEVEL = 'proof'
CONFIGS = {'quick': ['float'], 'thorough': ['float', 'fixed', 'fixed24', 'nofloatapi', 'custom', 'nortcd']}


def setup(rep, tier):
    rep.minimum('O14.1', 180)
    rep.minimum('O14.2', 400)
    rep.minimum('O14.4', 1)
    rep.minimum('O14.5', 1)
    rep.minimum('O14.6', 1)
    control(rep)
    rep.assumptions += ['malloc/free, mem*, libm and the x86 intrinsics are thread-safe',
                        'callers use one thread per codec object',
                        'no pointer is laundered through an integer, a union or a varargs list (a direct `&object` variadic argument - the ctl idiom - is treated as a store through it)']
