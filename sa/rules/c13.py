"""C13 — 16-bit, 24-bit and float PCM are views of one codec.

R13.1 helper/buffer type agreement.  The codec passes format-specific helper
      functions (down-mix readers, channel copy-in / copy-out) together with
      the caller's untyped PCM pointer.  The pairing "which void* argument
      does a function-pointer argument get applied to" is DERIVED from the
      indirect calls (and propagated through forwarding calls); at every call
      site that passes a named helper and a typed user buffer, the sample type
      the helper casts its void* parameter to must be the buffer's type.
R13.2 the soft_clip argument of the native decoders is non-zero only in the
      wrapper whose PCM is 16-bit (float build: there it is non-zero); the
      clipper covers exactly the samples the decoder returns.
R13.3 conversion scale constants are mutually consistent (24-bit = 16-bit
      x 256 on input; output scale x input scale = 1).
R13.4 declared depth per entry point (16 for 16-bit, the maximum for 24-bit
      and float) and lsb_depth is capped by the user's setting before any
      other use.
R13.5 inside each helper every sample read goes through the same conversion
      (the per-channel branches agree).
R13.6 every public PCM entry point reaches the single native path exactly
      once.
R13.7 16-bit PCM outputs never wrap (saturating conversion or proved range).
"""
from .. import sx, cfg as cfgm, guards, templates as T, decide, absint
from ..compdb import AnalysisBroken

EXPLANATION = (
    'Decided: R13.1 at all call sites the format-specific helper (down-mix reader, channel copy-in/out) handed to the '
    'native encoder/decoder reads or writes the caller\'s buffer with the element type of that buffer (the helper/buffer '
    'pairing is derived from the indirect calls, not listed); R13.2 soft clipping is requested only by the 16-bit '
    'decoders of the float build and covers exactly the returned samples; R13.3 input/output scale constants are '
    'consistent (x256 between 16- and 24-bit, output x input = 1); R13.4 the declared depth per entry point and the '
    'lsb_depth cap before use; R13.5 each helper converts every sample it reads the same way; R13.6 each public PCM '
    'entry point reaches the one native path exactly once. '
    'NOT decided: identity of the packets produced from equal audio through different entry points and exact rounding '
    'relations between the decoded formats (run-time relations).')

CONFIGS = {'quick': ['float'], 'thorough': ['float', 'fixed', 'fixed24', 'nofloatapi']}

SAMPLE_TYPES = {'opus_int16': 16, 'short': 16, 'opus_int32': 24, 'int': 24, 'float': 'f', 'opus_val16': None, 'opus_res': None, 'opus_val32': None}


def setup(rep, tier):
    rep.minimum('R13.1', 20)
    rep.minimum('R13.2', 6)
    rep.minimum('R13.3', 2)
    rep.minimum('R13.4', 6)
    rep.minimum('R13.5', 3)
    rep.minimum('R13.6', 9)
    rep.minimum('R13.7', 3)
    rep.minimum('R13.8', 1)
    rep.minimum('R13.9', 6)
    rep.minimum('R13.10', 3)
    rep.minimum('R13.11', 1)
    rep.minimum('R13.12', 1)
    rep.minimum('R13.13', 1)


def base_type(t):
    """'const opus_int16 *' -> 'opus_int16'"""
    t = (t or '').replace('const', '').replace('*', '').strip()
    return ' '.join(t.split())


def is_voidp(t):
    return base_type(t) == 'void' and '*' in (t or '')


def derive_pairs(prog):
    """F.name -> set of (fp_param_idx, void_param_idx, k): F applies the
    function passed at fp_param_idx to the buffer passed at void_param_idx,
    as the helper's k-th argument"""
    pairs = {}
    # base: direct indirect calls through a parameter
    for f in prog.functions_all:
        vps = {i for i, p in enumerate(f.params) if is_voidp(p['type'])}
        if not vps:
            continue
        for c in f.calls():
            callee = sx.strip(c[1])
            while sx.kind(callee) in ('deref', 'paren'):
                callee = sx.strip(callee[1])
            if sx.kind(callee) != 'param':
                continue
            for k, a in enumerate(c[2]):
                a0 = sx.strip(a)
                if sx.kind(a0) == 'param' and a0[1] in vps:
                    pairs.setdefault(f.name, set()).add((callee[1], a0[1], k))
    # induction: forwarding both the function pointer and the buffer
    changed = True
    while changed:
        changed = False
        for f in prog.functions_all:
            vps = {i for i, p in enumerate(f.params) if is_voidp(p['type'])}
            if not vps:
                continue
            for c in f.calls():
                g = sx.callee_name(c)
                if g not in pairs or g == f.name:
                    continue
                for (fi, vi, k) in list(pairs[g]):
                    if fi >= len(c[2]) or vi >= len(c[2]):
                        continue
                    fa, va = sx.strip(c[2][fi]), sx.strip(c[2][vi])
                    if sx.kind(fa) == 'param' and sx.kind(va) == 'param' and va[1] in vps:
                        t = (fa[1], va[1], k)
                        if t not in pairs.setdefault(f.name, set()):
                            pairs[f.name].add(t)
                            changed = True
    return pairs


def helper_cast_type(prog, h, k, depth=0):
    """element type to which helper h casts its k-th (void*) parameter; follows
    one level of forwarding to a typed callee parameter"""
    types = set()
    for n in h.all_nodes():
        if n[0] == 'cast' and not sx.A(n).get('impl') and sx.key(sx.strip(n[4])) == ('param', k) and '*' in n[1]:
            types.add(base_type(n[1]))
    if not types and depth < 2:
        for c in h.calls():
            g = prog.resolve_in(h, sx.callee_name(c) or '')
            for j, a in enumerate(c[2]):
                if sx.key(sx.strip(a)) == ('param', k) and g is not None and j < len(g.params):
                    if not is_voidp(g.params[j]['type']):
                        types.add(base_type(g.params[j]['type']))
                    else:
                        types |= helper_cast_type(prog, g, j, depth + 1)
    return types


def r13_1(rep, prog):
    pairs = derive_pairs(prog)
    if len(pairs) < 3:
        raise AnalysisBroken('helper/buffer pairing: only %d functions apply a function-pointer argument to a void* argument' % len(pairs))
    rep.extra['helper_buffer_pairs'] = {k: sorted(v) for k, v in sorted(pairs.items())}
    n = 0
    for f in prog.functions_all:
        for c in f.calls():
            g = sx.callee_name(c)
            if g not in pairs:
                continue
            for (fi, vi, k) in sorted(pairs[g]):
                if fi >= len(c[2]) or vi >= len(c[2]):
                    continue
                fa, va = sx.strip(c[2][fi]), sx.strip(c[2][vi])
                while sx.kind(fa) == 'addr':
                    fa = sx.strip(fa[1])
                if sx.kind(fa) != 'func':
                    continue
                # the buffer: a typed pointer parameter / local of the caller
                bt = None
                if sx.kind(va) == 'param':
                    bt = f.params[va[1]]['type']
                elif sx.kind(va) == 'local' and va[2] in f.locals:
                    bt = f.locals[va[2]].get('type')
                if bt is None or is_voidp(bt):
                    continue
                h = prog.functions.get(fa[1])
                where = '%s:%s' % (f.file, sx.line(c))
                inst = '%s:%s passes %s with a %s buffer to %s' % (prog.config, f.name, fa[1], base_type(bt), g)
                if h is None:
                    rep.unresolved('R13.1', 'helper %s has no definition' % fa[1], where)
                    continue
                ht = helper_cast_type(prog, h, k)
                n += 1
                rep.functions.add(f.name)
                if not ht:
                    rep.unresolved('R13.1', 'cannot find the element type helper %s gives its void* parameter %d' % (h.name, k), where)
                elif ht == {base_type(bt)} or (base_type(bt).startswith('opus_res') or base_type(bt).startswith('opus_val')) and len(ht) == 1:
                    rep.holds('R13.1', inst, where, 'helper reads/writes %s' % sorted(ht))
                else:
                    rep.violated('R13.1', inst, where, 'helper %s accesses the buffer as %s, the caller\'s PCM is %s: samples are read with the wrong width' % (h.name, sorted(ht), base_type(bt)),
                                 key='%s:%s' % (f.name, g + ':' + str(k)))
    return n


PUBLIC_DEC = ('opus_decode', 'opus_decode24', 'opus_decode_float', 'opus_multistream_decode', 'opus_multistream_decode24', 'opus_multistream_decode_float',
              'opus_projection_decode', 'opus_projection_decode24', 'opus_projection_decode_float')
PUBLIC_ENC = ('opus_encode', 'opus_encode24', 'opus_encode_float', 'opus_multistream_encode', 'opus_multistream_encode24', 'opus_multistream_encode_float',
              'opus_projection_encode', 'opus_projection_encode24', 'opus_projection_encode_float')
NATIVE = {'opus_decode_native': 8, 'opus_multistream_decode_native': 7, 'opus_encode_native': None, 'opus_multistream_encode_native': None}


def pcm_type(f):
    for p in f.params:
        if p['name'] == 'pcm':
            return base_type(p['type'])
    return None


def r13_26(rep, prog):
    D = set()
    for u in prog.unit_flags.values():
        D |= {d.split('=')[0] for d in u.get('D', [])}
    fixed = 'FIXED_POINT' in D or bool(prog.macros.get('FIXED_POINT'))
    res24 = 'ENABLE_RES24' in D
    max_depth = 24 if (not fixed or res24) else 16
    for name in PUBLIC_DEC + PUBLIC_ENC:
        if not prog.has_fn(name):
            if name.endswith('_float') and (prog.config == 'nofloatapi'):
                continue
            rep.unresolved('R13.6', 'public entry point %s not found' % name)
            continue
        f = prog.fn(name)
        rep.functions.add(name)
        calls = [c for c in f.calls() if sx.callee_name(c) in NATIVE]
        inst = '%s:%s reaches the native path exactly once' % (prog.config, name)
        if len(calls) != 1:
            rep.violated('R13.6', inst, f.where(), '%d calls to a native encode/decode function' % len(calls), key=name + ':native-calls')
            continue
        rep.holds('R13.6', inst, '%s:%s' % (f.file, sx.line(calls[0])), sx.callee_name(calls[0]))
        c = calls[0]
        pt = pcm_type(f)
        if name in PUBLIC_DEC:
            sc = c[2][NATIVE[sx.callee_name(c)]]
            v = decide.ev3(sc, {})
            where = '%s:%s' % (f.file, sx.line(c))
            inst = '%s:%s soft_clip argument' % (prog.config, name)
            if v is None:
                rep.unresolved('R13.2', '%s: soft_clip argument `%s` is not a constant' % (name, sx.show(sc)), where)
            elif pt == 'opus_int16' and 'projection' in name:
                r13_10_softclip(rep, prog, name, v, where)
            elif pt == 'opus_int16':
                want = 0 if fixed else 1
                if (v != 0) == bool(want):
                    rep.holds('R13.2', inst, where, '16-bit output: %d (%s build)' % (v, 'fixed' if fixed else 'float'))
                else:
                    rep.violated('R13.2', inst, where, '16-bit decoder of the float build must soft-clip before rounding (argument is %d)' % v, key=name + ':softclip')
            else:
                if v == 0:
                    rep.holds('R13.2', inst, where, '%s output: 0' % pt)
                else:
                    rep.violated('R13.2', inst, where, '%s output is soft-clipped (argument %d): it is no longer the same audio as the other formats' % (pt, v), key=name + ':softclip')
        else:
            # declared depth: argument position derived as the one that opus_encode_native names lsb_depth
            g = prog.fn(sx.callee_name(c))
            di = g.param_index('lsb_depth')
            if di is None:
                rep.unresolved('R13.4', '%s has no lsb_depth parameter' % g.name)
                continue
            v = decide.ev3(c[2][di], {})
            want = 16 if pt == 'opus_int16' else max_depth
            where = '%s:%s' % (f.file, sx.line(c))
            inst = '%s:%s declares %d-bit input depth (the build carries at most %d bits)' % (prog.config, name, want, max_depth)
            if v == want:
                rep.holds('R13.4', inst, where, 'pcm is %s' % pt)
            else:
                rep.violated('R13.4', inst, where, 'pcm is %s but lsb_depth argument is %s' % (pt, v), key=name + ':depth')
    # the clipper covers exactly what is returned
    f = prog.fn('opus_decode_native')
    cf = cfgm.CFG(f)
    sc = T.calls_to(cf, 'opus_pcm_soft_clip')
    if sc:
        b, i, c = sc[0]
        narg = sx.key(sx.strip(c[2][1]))
        rets = [s for bb, ii, s in T.returns_of(cf) if bb in (cf.reachable_from(b) | {b}) and s[1] is not None and sx.int_val(s[1]) is None]
        ok = bool(rets) and all(sx.key(sx.strip(s[1])) == narg for s in rets) and sx.kind(sx.strip(c[2][2])) == 'field' and sx.strip(c[2][2])[3] == 'channels'
        (rep.holds if ok else rep.violated)('R13.2', '%s:soft clipping covers exactly the samples returned' % prog.config, '%s:%s' % (f.file, sx.line(c)),
                                            'clipper length `%s` x `%s`; value returned afterwards %s' % (sx.show(c[2][1]), sx.show(c[2][2]), [sx.show(s[1]) for s in rets]),
                                            **({} if ok else {'key': 'softclip-length'}))
    elif not fixed and prog.has_fn('opus_pcm_soft_clip'):
        rep.violated('R13.2', '%s:opus_decode_native applies the soft clipper' % prog.config, f.where(), 'no call to opus_pcm_soft_clip', key='softclip-missing')
    # lsb_depth cap before any other use
    g = prog.fn('opus_encode_native')
    cg = cfgm.CFG(g)
    pl = g.param_index('lsb_depth')
    caps = [(b, i, n) for b, i, n in cg.find(lambda n: n[0] == 'assign' and sx.key(sx.strip(n[1])) == ('param', pl))]
    ok = False
    detail = 'no assignment lsb_depth = IMIN(lsb_depth, st->lsb_depth)'
    if caps:
        b, i, n = caps[0]
        mm = T_minmax(n[2])
        isf = lambda e: sx.kind(sx.strip(e)) == 'field' and sx.strip(e)[3] == 'lsb_depth'
        okform = mm is not None and mm[0] == 'min' and ((sx.key(mm[1]) == ('param', pl) and isf(mm[2])) or (sx.key(mm[2]) == ('param', pl) and isf(mm[1])))
        capcond = sx.key(sx.strip(sx.strip(n[2])[1])) if sx.kind(sx.strip(n[2])) == 'cond' else None
        uses = [(b2, i2) for b2, i2, m in cg.find(lambda m: sx.kind(m) == 'param' and m[1] == pl) if (b2, i2) != (b, i)
                and not (cg.cond(b2) is not None and i2 == len(cg.blocks[b2]['stmts']) and cg.blocks[b2]['term'].get('kind') == 'ConditionalOperator'
                         and sx.key(sx.strip(cg.cond(b2))) == capcond)]
        late = all(cg.pos_dominates((b, i), u) for u in uses)
        ok = okform and late and bool(uses)
        detail = 'cap form ok=%s, dominates all %d other uses=%s' % (okform, len(uses), late)
    (rep.holds if ok else rep.violated)('R13.4', '%s:lsb_depth is capped by the user setting before any use' % prog.config, g.where(), detail, **({} if ok else {'key': 'lsb-cap'}))


def T_minmax(e):
    e = sx.strip(e)
    if sx.kind(e) != 'cond':
        return None
    c = sx.strip(e[1])
    if sx.kind(c) != 'bin' or c[1] not in ('<', '>', '<=', '>='):
        return None
    a, b = sx.key(sx.strip(c[2])), sx.key(sx.strip(c[3]))
    x, y = sx.key(sx.strip(e[2])), sx.key(sx.strip(e[3]))
    if (x, y) == (a, b):
        return ('min' if c[1] in ('<', '<=') else 'max', sx.strip(c[2]), sx.strip(c[3]))
    if (x, y) == (b, a):
        return ('max' if c[1] in ('<', '<=') else 'min', sx.strip(c[2]), sx.strip(c[3]))
    return None


def _typed_view(h):
    """local pointer x assigned from a cast of a void* parameter: returns (local id, element type)"""
    for n in h.all_nodes():
        if n[0] == 'assign' and sx.kind(n[1]) == 'local' and sx.kind(sx.strip_paren(n[2])) == 'cast':
            c = sx.strip_paren(n[2])
            if sx.kind(sx.strip(c[4])) == 'param' and '*' in c[1]:
                return n[1][2], base_type(c[1])
    return None, None


def _abstract_reads(e, lid, hole):
    """copy of e with every read x[...] of the typed view replaced by `hole`"""
    if not isinstance(e, list) or not e:
        return e
    if e[0] == 'idx' and sx.kind(sx.strip(e[1])) == 'local' and sx.strip(e[1])[2] == lid:
        return hole
    return [_abstract_reads(x, lid, hole) if isinstance(x, list) else x for x in e]


def r13_35(rep, prog):
    scales = {}
    for hname in ('downmix_int', 'downmix_int24', 'downmix_float'):
        if not prog.has_fn(hname):
            continue
        h = prog.fn(hname)
        rep.functions.add(hname)
        lid, et = _typed_view(h)
        if lid is None:
            rep.unresolved('R13.5', '%s: typed view of the input not found' % hname, h.where())
            continue
        forms = {}
        for n in h.all_nodes():
            if n[0] in ('assign', 'cassign'):
                rhs = n[2] if n[0] == 'assign' else n[3]
                if any(m[0] == 'idx' and sx.kind(sx.strip(m[1])) == 'local' and sx.strip(m[1])[2] == lid for m in sx.walk(rhs)):
                    a = _abstract_reads(rhs, lid, ['int', 1])
                    forms.setdefault(sx.key(sx.nocast(a)), []).append(n)
        inst = '%s:%s converts every sample it reads the same way' % (prog.config, hname)
        if len(forms) == 1 and sum(len(v) for v in forms.values()) >= 3:
            rep.holds('R13.5', inst, h.where(), '%d reads, one conversion form' % sum(len(v) for v in forms.values()))
            a = _abstract_reads((list(forms.values())[0][0][2] if list(forms.values())[0][0][0] == 'assign' else list(forms.values())[0][0][3]), lid, ['int', 1])
            scales[et] = decide.ev3(sx.nocast(a), {})
        elif len(forms) > 1:
            minority = min(forms.values(), key=len)[0]
            rep.violated('R13.5', inst, '%s:%s' % (h.file, sx.line(minority)), 'the reads use %d different conversions; e.g. `%s`' % (len(forms), sx.show(minority)[:70]), key=hname + ':conversion')
        else:
            rep.unresolved('R13.5', '%s: fewer than 3 sample reads found' % hname, h.where())
    s16, s24 = scales.get('opus_int16'), scales.get('opus_int32')
    if s16 and s24:
        ok = abs(s16 / s24 - 256.0) < 1e-9
        (rep.holds if ok else rep.violated)('R13.3', '%s:analysis down-mix scales: 16-bit = 24-bit x 256' % prog.config, None, 'scale16 %r, scale24 %r' % (s16, s24), **({} if ok else {'key': 'downmix-scale'}))
    # entry-point conversions: in[i] = CONV(pcm[i]) in the encoders; pcm[i] = CONV(out[i]) in the decoders
    enc = {}
    dec = {}
    for name in ('opus_encode', 'opus_encode24', 'opus_decode24'):
        if not prog.has_fn(name):
            continue
        f = prog.fn(name)
        pi = f.param_index('pcm')
        for n in f.all_nodes():
            if n[0] != 'assign' or sx.kind(sx.strip_paren(n[1])) != 'idx':
                continue
            lv = sx.strip_paren(n[1])
            reads_pcm = [m for m in sx.walk(n[2]) if m[0] == 'idx' and sx.key(sx.strip(m[1])) == ('param', pi)]
            if reads_pcm and 'encode' in name:
                a = _subst_node(n[2], reads_pcm[0], ['int', 1 << 8] if fixed_build(prog) else ['flt', 1.0])
                enc[pcm_type(f)] = decide.ev3(sx.nocast(a), {})
            if sx.key(sx.strip(lv[1])) == ('param', pi) and 'decode' in name:
                reads = [m for m in sx.walk(n[2]) if m[0] == 'idx']
                if reads:
                    mul = [m for m in sx.walk(n[2]) if m[0] == 'bin' and m[1] == '*']
                    if mul:
                        a = _subst_node(mul[0], reads[0], ['flt', 1.0])
                        dec[pcm_type(f)] = decide.ev3(sx.nocast(a), {})
    if enc.get('opus_int16') and enc.get('opus_int32'):
        ok = abs(enc['opus_int16'] / enc['opus_int32'] - 256.0) < 1e-9
        (rep.holds if ok else rep.violated)('R13.3', '%s:encoder input scales: 16-bit = 24-bit x 256' % prog.config, None, '%r / %r' % (enc['opus_int16'], enc['opus_int32']), **({} if ok else {'key': 'enc-scale'}))
    if enc.get('opus_int32') and dec.get('opus_int32'):
        ok = abs(enc['opus_int32'] * dec['opus_int32'] - 1.0) < 1e-9
        (rep.holds if ok else rep.violated)('R13.3', '%s:24-bit output scale x input scale = 1' % prog.config, None, '%r x %r' % (dec['opus_int32'], enc['opus_int32']), **({} if ok else {'key': 'dec-scale'}))
    if not (enc or dec or scales):
        rep.holds('R13.3', '%s:no float conversions in this configuration (integer RES path)' % prog.config, None, None)
        rep.holds('R13.3', '%s:(integer build) scale relations are shifts, see R13.1 types' % prog.config, None, None)


def fixed_build(prog):
    return any('FIXED_POINT' in d for u in prog.unit_flags.values() for d in u.get('D', []))


def _subst_node(e, node, repl):
    if e is node:
        return repl
    if not isinstance(e, list):
        return e
    return [_subst_node(x, node, repl) if isinstance(x, list) else x for x in e]


SATURATING = ('FLOAT2INT16', 'float2int16', 'SAT16', 'celt_float2int16', 'silk_SAT16', 'SATURATE16')


def r13_7(rep, prog):
    """16-bit PCM outputs never wrap: in every function of the decoder output
    path that stores through an opus_int16 view of the caller's PCM, the value
    stored is the result of a saturating conversion or is proved inside
    [-32768, 32767] before narrowing (a `+=` is evaluated as old + addend)."""
    n = 0
    for f in prog.functions_all:
        if not f.file.startswith('src/') or 'enc' in f.name.lower() or '_in_' in f.name or f.name.startswith(('downmix', 'opus_packet', 'opus_repack')):
            continue
        views = set()
        for i, q in enumerate(f.params):
            if base_type(q['type']) == 'opus_int16' and '*' in q['type'] and 'const' not in q['type'] and q['name'] in ('output', 'pcm', 'dst', 'out'):
                views.add(('param', i))
        lid, et = _typed_view(f)
        if lid is not None and et == 'opus_int16' and any(is_voidp(q['type']) and 'const' not in q['type'] for q in f.params):
            views.add(('local', lid))
        if not views:
            continue
        an = None
        for b_, i_, node in cfgm.CFG(f).find(lambda x: x[0] in ('assign', 'cassign')):
            lv = sx.strip_paren(node[1] if node[0] == 'assign' else node[2])
            if sx.kind(lv) != 'idx' or sx.key(sx.strip(lv[1])) not in views:
                continue
            rhs = node[2] if node[0] == 'assign' else node[3]
            n += 1
            rep.functions.add(f.name)
            where = '%s:%s' % (f.file, sx.line(node))
            inst = '%s:%s stores `%s` into 16-bit PCM without wrapping' % (prog.config, f.name, sx.show(node)[:50])
            r0 = sx.strip_paren(rhs)
            while sx.kind(r0) == 'cast':
                r0 = sx.strip_paren(r0[4])
            if node[0] == 'assign' and (sx.int_val(r0) is not None or (sx.kind(r0) == 'call' and sx.callee_name(r0) in SATURATING)):
                rep.holds('R13.7', inst, where, 'saturating conversion %s' % (sx.callee_name(r0) if sx.kind(r0) == 'call' else 'constant'))
                continue
            if an is None:
                an = absint.Analyzer(prog, f, call_summary=absint.inline_summary(prog), havoc_fields_on_call=False)
            st = an.state_before_node(b_, i_, node)
            if st is None:
                continue
            if node[0] == 'cassign':
                v = an._binop(node[1], absint.mk(-32768, 32767), an.ev(rhs, st))
            else:
                op = rhs
                while sx.kind(sx.strip_paren(op)) == 'cast':
                    op = sx.strip_paren(op)[4]
                v = an.ev(op, st)
            if v is not None and absint.lo(v) >= -32768 and absint.hi(v) <= 32767:
                rep.holds('R13.7', inst, where, 'value before narrowing in %s' % absint.show(v))
            else:
                rep.violated('R13.7', inst, where, 'value before narrowing to opus_int16 can be %s: loud audio wraps around to the opposite sign instead of saturating' % (absint.show(v) if v is not None else 'unbounded'),
                             key='%s:int16-wrap' % f.name)
    if n < 3:
        rep.unresolved('R13.7', 'only %d stores into 16-bit PCM found in the decoder output path' % n)


# ------------------------------------------------------------------ R13.9
def r13_9(rep, prog):
    """the 16-bit / 24-bit / float entry points of one API are siblings: same parameter list, same *_native
    worker.  Every helper they call before the worker (packet duration query, frame-size selection, matrix /
    state accessors) must be called under the same conditions in each sibling that calls it - otherwise one
    sample format clamps, selects or rejects where the others do not, and sample counts / state diverge."""
    fams = {}
    for f in prog.functions_all:
        if f.static or not f.file.startswith('src/'):
            continue
        natives = [sx.callee_name(c) for c in f.calls() if (sx.callee_name(c) or '').endswith('_native')]
        if natives:
            fams.setdefault((f.file, natives[0], tuple(q['name'] for q in f.params)), []).append(f)
    n = 0
    for (file_, native, sig), fs in sorted(fams.items()):
        if len(fs) < 2:
            continue
        per = {}
        for f in fs:
            rep.functions.add(f.name)
            cg = cfgm.CFG(f)
            for b, i, s_ in cg.positions():
                for c in sx.walk(s_):
                    cn = sx.callee_name(c) if sx.kind(c) == 'call' else None
                    if not cn or cn == native or cn.startswith('__') or cn in ('celt_fatal', 'abort'):
                        continue
                    if prog.resolve_in(f, cn) is None:
                        continue
                    g = frozenset((sx.key(sx.strip(cnd)), pol) for cnd, pol, gb in cfgm.guards_of(cg, b) if cnd is not None)
                    shown = ' && '.join(sorted('%s%s' % ('' if pol else '!', sx.show(cnd)) for cnd, pol, gb in cfgm.guards_of(cg, b) if cnd is not None))
                    per.setdefault(cn, {}).setdefault(f.name, {})[g] = (shown, sx.line(c))
        for cn, d in sorted(per.items()):
            if len(d) < 2:
                continue
            n += 1
            names = sorted(d)
            ref = set(d[names[0]])
            inst = '%s:%s call %s under the same conditions' % (prog.config, '/'.join(names), cn)
            diff = [nm for nm in names[1:] if set(d[nm]) != ref]
            if diff:
                a, b_ = names[0], diff[0]
                rep.violated('R13.9', inst, '%s:%s' % (file_, list(d[b_].values())[0][1]), '%s calls it under `%s`, %s under `%s`' % (
                    a, ' | '.join(v[0] for v in d[a].values()), b_, ' | '.join(v[0] for v in d[b_].values())), key='%s:%s' % (native, cn))
            else:
                rep.holds('R13.9', inst, '%s:%s' % (file_, list(d[names[0]].values())[0][1]), 'guards `%s`' % ' | '.join(v[0] for v in d[names[0]].values()))
    return n


# ------------------------------------------------------------------ R13.10
def r13_10_softclip(rep, prog, name, v, where):
    """facet (a): the projection relation has no soft clipper - the 16-bit output is the de-mixed float output, rounded
    and saturated.  A clip requested by the 16-bit projection entry point acts on the elementary streams, i.e. in the
    mixed domain, before the matrix."""
    inst = '%s:%s does not clip the elementary streams before de-mixing' % (prog.config, name)
    if v == 0:
        rep.holds('R13.10', inst, where, 'soft_clip argument 0')
    else:
        rep.violated('R13.10', inst, where, 'soft_clip argument %d: every stream is soft-clipped to [-1,1] BEFORE the de-mixing matrix, where samples above full scale are normal; '
                     'the 16-bit output is then not the rounded, saturated float output' % v, key='projection-decode16:stream-softclip')


def r13_10(rep, prog):
    """facets (b), (c): inside the 16-bit de-mix (the matrix product that accumulates one stream at a time into the
    caller's opus_int16 buffer) nothing may saturate before the final sum: (b) the stream sample enters the product
    unsaturated, (c) the running sum is not clamped stream by stream."""
    n = 0
    for f in prog.functions_all:
        if not f.file.endswith('mapping_matrix.c') or 'out_short' not in f.name:
            continue
        rep.functions.add(f.name)
        an = absint.Analyzer(prog, f, call_summary=absint.inline_summary(prog), havoc_fields_on_call=False)
        cg = an.cf
        outp = [i for i, q in enumerate(f.params) if base_type(q['type']) == 'opus_int16' and '*' in q['type'] and 'const' not in q['type']]
        inp = [i for i, q in enumerate(f.params) if q['name'] == 'input']
        if not outp or not inp:
            rep.unresolved('R13.10', '%s: output / input parameters of %s not recognised' % (prog.config, f.name))
            continue
        # (b) locals assigned from the input stream
        for b_, i_, node in cg.find(lambda x: x[0] == 'assign' and sx.kind(sx.strip(x[1])) == 'local'):
            if not any(sx.kind(y) == 'idx' and sx.key(sx.strip(y[1])) == ('param', inp[0]) for y in sx.walk(node[2])):
                continue
            n += 1
            st = an.state_before_node(b_, i_, node)
            v = an.ev(node[2], st) if st is not None else None
            inst = '%s:%s takes the stream sample into the matrix product without saturating it' % (prog.config, f.name)
            where = '%s:%s' % (f.file, sx.line(node))
            clamp = any(sx.kind(y) == 'cond' for y in sx.walk(node[2])) or any(sx.kind(y) == 'call' and sx.callee_name(y) in SATURATING for y in sx.walk(node[2]))
            if 'FIXED_POINT' in prog.macros and 'ENABLE_RES24' not in prog.macros and not clamp:
                rep.holds('R13.10', inst, where, 'the stream is 16-bit in this configuration')
            elif clamp and v is not None and absint.lo(v) >= -32768 and absint.hi(v) <= 32767:
                rep.violated('R13.10', inst, where, '`%s` saturates the stream sample to %s: streams are in the mixed domain where values above full scale are normal, so loud but legal input is hard-clipped before de-mixing' % (
                    sx.show(node)[:60], absint.show(v)), key='projection-decode16:stream-saturation')
            else:
                rep.holds('R13.10', inst, where, 'no saturating conversion')
        # (c) accumulating stores into the 16-bit output
        for b_, i_, node in cg.find(lambda x: x[0] in ('assign', 'cassign')):
            lv = sx.strip_paren(node[1] if node[0] == 'assign' else node[2])
            if sx.kind(lv) != 'idx' or sx.key(sx.strip(lv[1])) != ('param', outp[0]):
                continue
            n += 1
            inst = '%s:%s saturates the de-mixed sum once, not stream by stream' % (prog.config, f.name)
            where = '%s:%s' % (f.file, sx.line(node))
            rhs = node[2] if node[0] == 'assign' else node[3]
            clamp = any(sx.kind(y) == 'cond' for y in sx.walk(rhs)) or any(sx.kind(y) == 'call' and sx.callee_name(y) in SATURATING for y in sx.walk(rhs))
            accum = node[0] == 'cassign' or any(sx.kind(y) == 'local' for y in sx.walk(rhs) if False)
            # the running sum lives in the 16-bit buffer between calls (one call per stream): a clamp here is per stream
            reads_out = node[0] == 'cassign'
            if node[0] == 'assign':
                seen, work = set(), [rhs]
                while work and not reads_out:
                    x = work.pop()
                    for y in sx.walk(x):
                        if sx.kind(y) == 'idx' and sx.key(sx.strip(y[1])) == ('param', outp[0]):
                            reads_out = True
                        if sx.kind(y) == 'local' and y[2] not in seen:
                            seen.add(y[2])
                            work += [r for lv2, r in decide.find_assign(f, y[1])]
            if reads_out and clamp:
                rep.violated('R13.10', inst, where, '`%s` clamps the running sum after each stream\'s contribution: when a partial sum overshoots and a later stream brings the total back in range the result differs from the float output' % sx.show(node)[:70],
                             key='projection-decode16:partial-sum-saturation')
            else:
                rep.holds('R13.10', inst, where, 'no per-stream clamp')
    return n


# ------------------------------------------------------------------ R13.11
def r13_11(rep, prog):
    """24-bit output never overflows: every conversion of a float sample to the 32-bit integer PCM format
    (the RES2INT24 expansion, i.e. float2int of the scaled sample) clamps its argument to the int32 range first.
    float2int() of a value beyond +-2^31 is undefined and yields INT32_MIN on x86: with a decoder gain of some
    +50 dB a loud positive sample comes out as the most negative integer."""
    n = 0
    for f in prog.functions_all:
        if not f.file.startswith('src/') or 'analysis' in f.file:
            continue
        # OUTPUT conversions only: the decoders and the de-mixing (`_out_`) kernels.  What the encoder does with float
        # input beyond full scale is not part of the property (its relations are stated for audio the formats can hold).
        if not (f.file.endswith('_decoder.c') or (f.file.endswith('mapping_matrix.c') and '_out_' in f.name)):
            continue
        for c in f.calls():
            if sx.callee_name(c) not in ('float2int', 'lrintf', 'lrint'):
                continue
            n += 1
            rep.functions.add(f.name)
            arg = c[2][0]
            clamp = any(sx.kind(y) == 'cond' for y in sx.walk(arg)) or any(sx.kind(y) == 'call' and sx.callee_name(y) in ('fminf', 'fmaxf', 'fmin', 'fmax') for y in sx.walk(arg))
            inst = '%s:%s saturates the float sample before converting it to 32-bit PCM' % (prog.config, f.name)
            where = '%s:%s' % (f.file, sx.line(c))
            big = [float(y[1]) for y in sx.walk(arg) if sx.kind(y) == 'flt' and abs(float(y[1])) >= 2147483000.0]
            if clamp and any(v >= 2147483648.0 for v in big):
                rep.violated('R13.11', inst, where, 'the upper clamp constant is %.1f as a float, i.e. 2^31 itself: float2int() of it is still out of range (INT32_MIN) - the largest float below 2^31 is 2147483520' % max(big),
                             key='%s:float2int-bound' % f.name)
            elif clamp:
                rep.holds('R13.11', inst, where, '`%s`' % sx.show(c)[:80])
            else:
                rep.violated('R13.11', inst, where, '`%s` converts an unbounded float: beyond +-256 x full scale (decoder gain, de-mixing) the result is INT32_MIN whatever the sign' % sx.show(c)[:80],
                             key='%s:float2int-unsaturated' % f.name)
    if n == 0:
        if 'FIXED_POINT' in prog.macros or prog.config.startswith('fixed') or prog.config == 'nofloatapi':
            rep.holds('R13.11', '%s: no float to 32-bit PCM conversion in this configuration' % prog.config, None, 'integer sample path')
            n = 1
    return n


# ------------------------------------------------------------------ R13.12
def r13_12(rep, prog):
    """the three analysis down-mix helpers (16-bit, 24-bit, float input) are one routine instantiated three times: they
    must read the same samples.  The set of index expressions applied to the typed input view (channel c1, channel c2,
    every channel c) is the same in each."""
    forms = {}
    for hname in ('downmix_int', 'downmix_int24', 'downmix_float'):
        if not prog.has_fn(hname):
            continue
        h = prog.fn(hname)
        lid, et = _typed_view(h)
        if lid is None:
            continue
        rep.functions.add(hname)
        idxs = {}
        for n in h.all_nodes():
            if sx.kind(n) == 'idx' and sx.kind(sx.strip(n[1])) == 'local' and sx.strip(n[1])[2] == lid:
                # name-based normal form: the siblings use the same parameter names
                idxs[sx.show(n[2])] = sx.line(n)
        forms[hname] = (h, idxs)
    if len(forms) < 2:
        rep.unresolved('R13.12', '%s: fewer than two down-mix helpers found' % prog.config)
        return 0
    names = sorted(forms)
    ref = set(forms[names[0]][1])
    n = 0
    for nm in names[1:]:
        n += 1
        h, idxs = forms[nm]
        inst = '%s:%s and %s read the same samples of their input' % (prog.config, names[0], nm)
        if set(idxs) == ref:
            rep.holds('R13.12', inst, h.where(), 'index forms %s' % sorted(ref))
        else:
            rep.violated('R13.12', inst, h.where(), 'only in %s: %s; only in %s: %s' % (names[0], sorted(ref - set(idxs)), nm, sorted(set(idxs) - ref)), key='downmix-index:%s' % nm)
    return n


# ------------------------------------------------------------------ R13.13
def r13_13(rep, prog):
    """the 24-bit projection de-mix accumulates one stream at a time into the caller's opus_int32 buffer: the
    running sum must be clamped at the 32-bit limits, not wrapped.  A bare `+=` of a 64-bit term into the
    32-bit output wraps for loud sound fields under a large decoder gain (C19: integer output saturates)."""
    n = 0
    for f in prog.functions_all:
        if not f.file.endswith('mapping_matrix.c') or 'out_int24' not in f.name:
            continue
        rep.functions.add(f.name)
        outp = [i for i, q in enumerate(f.params) if base_type(q['type']) == 'opus_int32' and '*' in q['type'] and 'const' not in q['type']]
        if not outp:
            rep.unresolved('R13.13', '%s: output parameter of %s not recognised' % (prog.config, f.name))
            continue
        for node in f.all_nodes():
            if node[0] not in ('assign', 'cassign'):
                continue
            lv = sx.strip_paren(node[1] if node[0] == 'assign' else node[2])
            if sx.kind(lv) != 'idx' or sx.key(sx.strip(lv[1])) != ('param', outp[0]):
                continue
            n += 1
            rhs = node[2] if node[0] == 'assign' else node[3]
            clamp = any(sx.kind(y) == 'cond' for y in sx.walk(rhs))
            inst = '%s:%s clamps the running 32-bit sum' % (prog.config, f.name)
            where = '%s:%s' % (f.file, sx.line(node))
            if node[0] == 'assign' and clamp:
                rep.holds('R13.13', inst, where, 'clamped store')
            else:
                rep.violated('R13.13', inst, where, '`%s` adds a 64-bit term into the 32-bit output without a clamp: the sum wraps to the opposite sign' % sx.show(node)[:70], key='%s:int32-wrap' % f.name)
    return n


def check(rep, prog, tier):
    r13_13(rep, prog)
    r13_12(rep, prog)
    r13_11(rep, prog)
    r13_10(rep, prog)
    r13_9(rep, prog)
    from . import softclipmem
    softclipmem.check(rep, prog, 'R13.8', 'always')
    r13_7(rep, prog)
    r13_1(rep, prog)
    r13_26(rep, prog)
    r13_35(rep, prog)
