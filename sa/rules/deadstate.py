"""State that is maintained but no longer consulted.

A field of a codec state structure that some function still WRITES but that no function READS any more marks a
decision that used to depend on history and has been dropped (`|| st->prev_redundancy` removed from a condition, a
counter that is still incremented but no longer tested).  The structures carry a few such fields on the reference
tree (left-overs, fields only read in other configurations); they are frozen per configuration in
spec/deadstate.json.  Any OTHER written-but-never-read field is reported, under the property whose side of the
codec owns the record (decoder-side records: C03, encoder-side: C02).

reads  = every occurrence of the field that is not the direct left-hand side of a plain assignment
         (`x->f += 1` and `x->f++` read; `&x->f` passed to a callee reads)
writes = left-hand sides of assignments, compound assignments and ++ / --."""
import json, os
from .. import sx
from ..compdb import AnalysisBroken

SPEC = os.path.join(os.path.dirname(os.path.dirname(os.path.dirname(os.path.abspath(__file__)))), 'spec', 'deadstate.json')
DECODER_SIDE = ('OpusDecoder', 'OpusCustomDecoder', 'silk_decoder', 'silk_decoder_state', 'silk_decoder_control', 'silk_PLC_struct', 'silk_CNG_struct',
                'stereo_dec_state', 'silk_DecControlStruct', 'OpusMSDecoder', 'OpusProjectionDecoder', 'ec_ctx', 'silk_resampler_state_struct')


def survey(prog):
    reads, writes = {}, {}
    for f in prog.functions_all:
        lvs = set()
        for n in f.all_nodes():
            if n[0] in ('assign', 'cassign', 'inc'):
                lv = sx.strip_paren(n[1] if n[0] == 'assign' else (n[2] if n[0] == 'cassign' else n[3]))
                if sx.kind(lv) == 'field':
                    writes.setdefault((lv[2], lv[3]), set()).add(f.name)
                    if n[0] == 'assign':
                        lvs.add(id(lv))
        for n in f.all_nodes():
            if sx.kind(n) == 'field' and id(n) not in lvs:
                reads.setdefault((n[2], n[3]), set()).add(f.name)
    return reads, writes


def check(rep, rule, prog, side):
    cfg = prog.config.split('+')[0]
    try:
        spec = json.load(open(SPEC))
    except (OSError, ValueError):
        raise AnalysisBroken('spec/deadstate.json missing')
    if cfg not in spec:
        return 0
    frozen = {tuple(x) for x in spec[cfg]}
    reads, writes = survey(prog)
    n = 0
    bad = []
    for (rec, fld), ws in sorted(writes.items()):
        dec = rec in DECODER_SIDE
        if (side == 'decoder') != dec:
            continue
        n += 1
        if (rec, fld) not in reads and (rec, fld) not in frozen:
            bad.append((rec, fld, sorted(ws)))
    for rec, fld, ws in bad:
        r = prog.records.get(rec, {})
        rep.violated(rule, '%s:%s.%s is still read by some function' % (prog.config, rec, fld), r.get('loc'), 'written by %s but read nowhere: state that is maintained and no longer consulted - a decision that depended on it has been dropped' % ws[:3],
                     key='dead:%s.%s' % (rec, fld))
    rep.holds(rule, '%s:every %s-side state field that is written is also read (%d frozen left-overs aside)' % (prog.config, side, len(frozen)), None, '%d written fields' % n, n=n)
    return n


if __name__ == '__main__':
    from ..facts import Program
    out = {}
    for cfg in ('float', 'fixed'):
        p = Program(cfg)
        reads, writes = survey(p)
        out[cfg] = sorted([list(k) for k in writes if k not in reads])
    json.dump(out, open(SPEC, 'w'), indent=1)
    print({k: len(v) for k, v in out.items()})
