"""C09 — packet loss: PLC and FEC return the requested audio, stay bounded, recover.

R09.1 duration and capacity skeleton of concealment / FEC in opus_decode_native
      and the per-frame decoder:
      a  the 2.5 ms-multiple test lies on every path to the PLC loop and the
         FEC branch and rejects with OPUS_BAD_ARG;
      b  the PLC loop hands the frame decoder exactly the remaining capacity at
         the matching offset (one cursor drives both), adds what was returned,
         leaves only when the cursor reaches frame_size, and reports that count;
      c  the FEC branch conceals frame_size - packet_frame_size samples, decodes
         one frame of packet_frame_size at exactly that offset, is entered only
         when frame_size >= packet_frame_size, and reports frame_size;
      d  the chunked (> 20 ms) concealment of the frame decoder never asks for
         more than what is left (min(remaining, 20 ms)), advances the output by
         what was produced and returns the requested total.
R09.2 SILK concealment attenuation: every table entry is a gain in (0, 1) in
      Q15, the tables have NB_ATT entries and are indexed through a clamp;
      lossCnt is incremented by the concealment and cleared by a good frame.
R09.3 a <= 1-byte payload is routed to concealment, bounded by the TOC duration.
R09.4 FEC side information: encoder and decoder use the same flag (LBRR flag
      of the side channel in LBRR frames, VAD flag otherwise) to decide whether
      the mid-only flag is present - decision tables compared.
R09.5 CELT: the loss counter saturates and is cleared by a received frame; the
      per-packet rise of the background-noise estimate is bounded by a constant.
"""
from .. import sx, cfg as cfgm, guards, templates as T, absint, decide, roles
from ..facts import flatten
from ..compdb import AnalysisBroken

EXPLANATION = (
    'Decided: R09.1 the duration/capacity skeleton - the 2.5 ms test guards PLC and FEC; the PLC loop and the chunked '
    'concealment pass exactly the remaining capacity at the matching offset and return the requested count; the FEC '
    'branch = PLC(frame_size - packet_frame_size) + one frame decoded at that offset, only when frame_size >= '
    'packet_frame_size; R09.2 all SILK concealment attenuation factors are < 1.0 and clamp-indexed, lossCnt '
    'bookkeeping; R09.3 tiny payloads go to concealment bounded by the TOC duration; R09.4 encoder and decoder agree '
    'on which flag governs the mid-only symbol of LBRR frames; R09.5 CELT loss counter saturation/reset and the '
    'bounded rise of the noise floor after an outage. '
    'NOT decided: output level bounds and decay as measured audio, accuracy of FEC versus the lost frame, and '
    're-convergence after loss (numeric, signal dependent).')

CONFIGS = {'quick': ['float', 'fixed'], 'thorough': ['float', 'fixed']}


def setup(rep, tier):
    rep.minimum('R09.1', 5)
    rep.minimum('R09.2', 5)
    rep.minimum('R09.3', 1)
    rep.minimum('R09.4', 4)
    rep.minimum('R09.5', 3)
    rep.minimum('R09.6', 1)
    rep.minimum('R09.7', 3)
    rep.minimum('R09.8', 1)
    rep.minimum('R09.9', 2)
    rep.minimum('R09.10', 2)
    rep.minimum('R09.11', 2)


def T_minmax(e):
    e = sx.strip(e)
    if sx.kind(e) != 'cond':
        return None
    c = sx.strip(e[1])
    if sx.kind(c) != 'bin' or c[1] not in ('<', '>', '<=', '>='):
        return None
    a, b = sx.key(sx.strip(c[2])), sx.key(sx.strip(c[3]))
    x, y = sx.key(sx.strip(e[2])), sx.key(sx.strip(e[3]))
    if (x, y) == (a, b):
        return ('min' if c[1] in ('<', '<=') else 'max', sx.strip(c[2]), sx.strip(c[3]))
    if (x, y) == (b, a):
        return ('max' if c[1] in ('<', '<=') else 'min', sx.strip(c[2]), sx.strip(c[3]))
    return None


def _ptr_offset(e, base_key):
    """e == base + off  ->  off (S-expr) ; e == base -> ['int',0]; else None"""
    e = sx.strip(e)
    if sx.key(e) == base_key:
        return ['int', 0]
    if sx.kind(e) == 'bin' and e[1] == '+' and sx.A(e).get('ptr'):
        l, r = sx.strip(e[2]), sx.strip(e[3])
        if sx.key(l) == base_key:
            return r
        if sx.key(r) == base_key:
            return l
    return None


def _times_channels(off):
    """off == X * st->channels (either order) -> X ; 0 -> 0"""
    off = sx.strip(off)
    if sx.int_val(off) == 0:
        return ['int', 0]
    if sx.kind(off) == 'bin' and off[1] == '*':
        l, r = sx.strip(off[2]), sx.strip(off[3])
        if sx.kind(l) == 'field' and l[3] == 'channels':
            return r
        if sx.kind(r) == 'field' and r[3] == 'channels':
            return l
    return None


def r09_1(rep, prog):
    f = prog.fn('opus_decode_native')
    rep.functions.add(f.name)
    cf = cfgm.CFG(f)
    fdec = {g.name for g in roles.frame_decoders(prog)}
    ppcm, pfs, pfec, plen, pdata = (f.param_index(n) for n in ('pcm', 'frame_size', 'decode_fec', 'len', 'data'))
    kpcm, kfs = ('param', ppcm), ('param', pfs)
    frame_calls = [(b, i, c) for b, i, c in cf.find(lambda c: c[0] == 'call' and sx.callee_name(c) in fdec)]
    self_calls = T.calls_to(cf, f.name)
    # ---- a: the modulo test
    mods = [b for b in cf.blocks if cf.cond(b) is not None and any(n[0] == 'bin' and n[1] == '%' and sx.key(sx.strip(n[2])) == kfs for n in sx.walk(cf.cond(b)))]
    inst = '%s:the 2.5 ms-multiple test guards concealment and FEC' % prog.config
    if len(mods) != 1:
        rep.violated('R09.1', inst, f.where(), 'no single `frame_size %% (Fs/400)` test in opus_decode_native (%d found)' % len(mods), key='mod-test')
    else:
        mb = mods[0]
        c = cf.cond(mb)
        modn = [n for n in sx.walk(c) if n[0] == 'bin' and n[1] == '%'][0]
        div = sx.strip(modn[3])
        ok_div = sx.kind(div) == 'bin' and div[1] == '/' and sx.int_val(div[3]) == 400 and sx.kind(sx.strip(div[2])) == 'field' and sx.strip(div[2])[3] == 'Fs'
        act = None
        for s_, pol in cf.edges(mb):
            if pol is True:
                act = T._block_action(cf, s_, 0)
        # every PLC / FEC site is reached only with (data present and no FEC) or through the chain that evaluates the test
        head = mb
        # walk up the && / || chain (statement-free predecessor condition blocks)
        chain = {mb}
        skip = {s_ for s_, pol in cf.edges(mb) if pol is False}
        grew = True
        while grew:
            grew = False
            for x in list(chain):
                for p_ in cf.pred[x]:
                    if p_ not in chain and cf.cond(p_) is not None and set(cf.succ[p_]) <= (chain | skip):
                        chain.add(p_)
                        grew = True
        tops = [x for x in chain if not any(p_ in chain for p_ in cf.pred[x])]
        plc_sites = {b for b, i, c_ in frame_calls if sx.int_val(c_[2][1]) == 0 or sx.int_val(c_[2][2]) == 0} | {b for b, i, c_ in self_calls}
        fec_sites = {b for b, i, c_ in frame_calls if sx.int_val(c_[2][5]) == 1}
        okpass = bool(tops) and all(cf.must_pass_live(cf.entry, {s_}, set(tops)) for s_ in plc_sites | fec_sites)
        # the chain mentions decode_fec, len == 0 and data == NULL
        terms = set()
        for x in chain:
            for n in sx.walk(cf.cond(x)):
                if sx.kind(n) == 'param':
                    terms.add(n[1])
        ok_terms = {pfec, plen, pdata} <= terms
        ok = ok_div and act == ('return', -1) and okpass and ok_terms and bool(plc_sites) and bool(fec_sites)
        (rep.holds if ok else rep.violated)('R09.1', inst, '%s:%s' % (f.file, cf.blocks[mb]['term'].get('l')),
                                            'divisor Fs/400: %s, failing action %s, on every path to the %d PLC and %d FEC sites: %s, mentions decode_fec/len/data: %s' %
                                            (ok_div, act, len(plc_sites), len(fec_sites), okpass, ok_terms), **({} if ok else {'key': 'mod-test'}))
    # ---- b: PLC loop
    plc = [(b, i, c) for b, i, c in frame_calls if sx.int_val(c[2][1]) == 0 and b in cf.reachable_from(b)]
    inst = '%s:PLC loop passes the remaining capacity at the matching offset' % prog.config
    if len(plc) != 1:
        rep.violated('R09.1', inst, f.where(), 'expected one frame-decoder PLC call inside a loop, found %d' % len(plc), key='plc-loop')
    else:
        b, i, c = plc[0]
        off = _ptr_offset(c[2][3], kpcm)
        cur = _times_channels(off) if off is not None else None
        cap = sx.strip(c[2][4])
        ok_cap = cur is not None and sx.kind(cur) == 'local' and sx.kind(cap) == 'bin' and cap[1] == '-' and sx.key(sx.strip(cap[2])) == kfs and sx.key(sx.strip(cap[3])) == sx.key(cur)
        where = '%s:%s' % (f.file, sx.line(c))
        (rep.holds if ok_cap else rep.violated)('R09.1', inst, where, 'output `%s`, capacity `%s`' % (sx.show(c[2][3]), sx.show(cap)), **({} if ok_cap else {'key': 'plc-capacity'}))
        if ok_cap:
            ck = sx.key(cur)
            # result local
            res = None
            for n in sx.walk(cf.f.block_exprs(cf.blocks[b])[i]):
                if n[0] == 'assign' and sx.kind(n[1]) == 'local' and n[2] is c or (n[0] == 'assign' and sx.kind(n[1]) == 'local' and sx.strip(n[2]) is c):
                    res = sx.key(n[1])
            upd = [n for bb, ii, n in cf.find(lambda n: n[0] in ('assign', 'cassign', 'inc') and sx.key(sx.strip_paren(n[1] if n[0] == 'assign' else (n[2] if n[0] == 'cassign' else n[3]))) == ck)]
            adv = [n for n in upd if n[0] == 'cassign' and n[1] == '+' and res is not None and sx.key(sx.strip(n[3])) == res]
            init = [n for n in upd if n[0] == 'assign' and sx.int_val(n[2]) == 0]
            decl0 = [d for n in f.all_nodes() if n[0] == 'decls' for d in n[1] if d[0] == 'decl' and ('local', d[2]) == ck and d[3] is not None and sx.int_val(d[3]) == 0]
            others = [n for n in upd if n not in adv and n not in init]
            # loop condition cursor < frame_size
            conds = [bb for bb in cf.blocks if cf.cond(bb) is not None and guards.atoms(cf.cond(bb), True) == [('<', ck, kfs)]]
            # negative result returned
            negret = any(a == ('<', res, ('int', 0)) for bb in cf.blocks if cf.cond(bb) is not None for a in guards.atoms(cf.cond(bb), True)) if res else False
            # returns the cursor and stores it as the duration
            rets = [s for bb, ii, s in T.returns_of(cf) if s[1] is not None and sx.key(sx.strip(s[1])) == ck]
            dur = [n for n in f.all_nodes() if n[0] == 'assign' and sx.kind(sx.strip_paren(n[1])) == 'field' and sx.strip_paren(n[1])[3] == 'last_packet_duration' and sx.key(sx.strip(n[2])) == ck]
            ok = len(adv) == 1 and (init or decl0) and not others and len(conds) == 1 and negret and rets and dur
            (rep.holds if ok else rep.violated)('R09.1', '%s:PLC loop adds what was produced, ends at frame_size and reports the count' % prog.config, where,
                                                'advance by result: %d, other updates: %s, loop test cursor<frame_size: %d, negative result returned: %s, returns cursor: %d, duration=cursor: %d' %
                                                (len(adv), [sx.show(n) for n in others], len(conds), negret, len(rets), len(dur)), **({} if ok else {'key': 'plc-loop'}))
    # ---- c: FEC branch
    fec = [(b, i, c) for b, i, c in frame_calls if sx.int_val(c[2][5]) == 1]
    inst = '%s:FEC = PLC(frame_size - packet_frame_size) + one frame decoded at that offset' % prog.config
    if len(fec) != 1:
        rep.violated('R09.1', inst, f.where(), 'expected one frame-decoder call with decode_fec=1, found %d' % len(fec), key='fec')
    else:
        b, i, c = fec[0]
        where = '%s:%s' % (f.file, sx.line(c))
        off = _ptr_offset(c[2][3], kpcm)
        gap = _times_channels(off) if off is not None else None
        cap = sx.strip(c[2][4])
        ok1 = gap is not None and sx.kind(sx.strip(gap)) == 'bin' and sx.strip(gap)[1] == '-' and sx.key(sx.strip(sx.strip(gap)[2])) == kfs and sx.key(sx.strip(sx.strip(gap)[3])) == sx.key(cap)
        # the nested PLC call with exactly the gap, dominating the FEC decode
        gapk = sx.key(sx.strip(gap)) if gap is not None else None
        nested = [(bb, ii, cc) for bb, ii, cc in self_calls if sx.key(sx.strip(cc[2][4])) == gapk and sx.int_val(cc[2][2]) == 0]
        ok2 = len(nested) == 1 and b in cf.reachable_from(nested[0][0])
        # guard frame_size < packet_frame_size -> PLC only
        facts = T.stable_facts(cf, b, i)
        ok3 = any(a in (('<=', sx.key(cap), kfs),) for a in facts) or any(a[0] in ('<=', '<') and a[1] == sx.key(cap) and a[2] == kfs for a in facts)
        # returns frame_size, duration = frame_size
        after = cf.reachable_from(b) | {b}
        rets = [s for bb, ii, s in T.returns_of(cf) if bb in after and s[1] is not None and sx.int_val(s[1]) is None and not (sx.kind(sx.strip(s[1])) == 'local')]
        ok4 = bool(rets) and all(sx.key(sx.strip(s[1])) == kfs for s in rets if cf.dominates(b, [bb for bb, ii, s2 in T.returns_of(cf) if s2 is s][0]))
        ok = ok1 and ok2 and ok3 and ok4
        (rep.holds if ok else rep.violated)('R09.1', inst, where,
                                            'offset = channels*(frame_size - capacity): %s; nested PLC of that length before it: %s; reached only with packet_frame_size <= frame_size: %s; reports frame_size: %s' % (ok1, ok2, ok3, ok4),
                                            **({} if ok else {'key': 'fec'}))
    # ---- d: chunked concealment inside the frame decoder
    nd = 0
    for g in roles.frame_decoders(prog):
        cg = cfgm.CFG(g)
        gp = g.param_index('pcm')
        for b, i, c in cg.find(lambda c: c[0] == 'call' and sx.callee_name(c) in fdec):
            if sx.int_val(c[2][2]) != 0 or b not in cg.reachable_from(b):
                continue
            out = sx.strip(c[2][3])
            if sx.key(out) != ('param', gp):
                continue
            nd += 1
            cap = c[2][4]
            mm = T_minmax(cap)
            where = '%s:%s' % (g.file, sx.line(c))
            inst = '%s:%s chunked concealment asks for at most what is left' % (prog.config, g.name)
            rem = None
            if mm and mm[0] == 'min':
                rem = [x for x in (mm[1], mm[2]) if sx.kind(x) == 'local']
            if not rem:
                rep.violated('R09.1', inst, where, 'capacity argument `%s` is not min(remaining, chunk): a full chunk is written even when less room is left' % sx.show(cap), key='%s:chunk-capacity' % g.name)
                continue
            rk = sx.key(rem[0])
            # remaining decreases by the result; the output pointer advances by result*channels; loop while remaining > 0
            res = None
            for n in sx.walk(cg.f.block_exprs(cg.blocks[b])[i]):
                if n[0] == 'decls':
                    for d in n[1]:
                        if d[0] == 'decl' and d[3] is not None and sx.strip(d[3]) is c:
                            res = ('local', d[2])
                if n[0] == 'assign' and sx.kind(n[1]) == 'local' and sx.strip(n[2]) is c:
                    res = sx.key(n[1])
            dec = [n for n in g.all_nodes() if n[0] == 'cassign' and n[1] == '-' and sx.key(sx.strip(n[2])) == rk and res and sx.key(sx.strip(n[3])) == res]
            advp = [n for n in g.all_nodes() if n[0] == 'cassign' and n[1] == '+' and sx.key(sx.strip(n[2])) == ('param', gp) and res and
                    sx.key(sx.strip(_times_channels(n[3]) or ['int', -1])) == res]
            loopc = [bb for bb in cg.blocks if cg.cond(bb) is not None and guards.atoms(cg.cond(bb), True) == [('<', ('int', 0), rk)]]
            ok = len(dec) == 1 and len(advp) == 1 and len(loopc) >= 1
            (rep.holds if ok else rep.violated)('R09.1', inst, where, 'capacity `%s`; remaining -= result: %d; pcm += result*channels: %d; loop while remaining > 0: %d' %
                                                (sx.show(cap), len(dec), len(advp), len(loopc)), **({} if ok else {'key': '%s:chunk-loop' % g.name}))
    if not nd:
        rep.unresolved('R09.1', 'chunked concealment loop not found in the frame decoder')


def r09_2(rep, prog):
    names = ('HARM_ATT_Q15', 'PLC_RAND_ATTENUATE_V_Q15', 'PLC_RAND_ATTENUATE_UV_Q15')
    lens = set()
    for n in names:
        g = prog.globals.get(n)
        if g is None:
            rep.unresolved('R09.2', 'attenuation table %s not found' % n)
            continue
        vals = [x for x in flatten(g['init'])]
        lens.add(len(vals))
        ok = all(isinstance(v, int) and 0 < v < 32768 for v in vals) and g['const']
        mono = all(vals[k] >= vals[k + 1] for k in range(len(vals) - 1))
        inst = '%s:%s entries are attenuations in (0,1) (Q15), non-increasing with the loss count' % (prog.config, n)
        (rep.holds if ok and mono else rep.violated)('R09.2', inst, g['loc'], 'values %s' % vals, **({} if ok and mono else {'key': 'att:' + n}))
    f = prog.fn('silk_PLC_conceal')
    rep.functions.add(f.name)
    # lossCnt invariant: its only writers are `= 0` and `++` (checked below), so it is never negative
    lc_writers = [n for g_ in prog.functions_all for n in g_.all_nodes() if n[0] in ('assign', 'cassign', 'inc') and
                  sx.kind(sx.strip_paren(n[1] if n[0] == 'assign' else (n[2] if n[0] == 'cassign' else n[3]))) == 'field' and
                  sx.strip_paren(n[1] if n[0] == 'assign' else (n[2] if n[0] == 'cassign' else n[3]))[3] == 'lossCnt']
    nonneg = bool(lc_writers) and all((n[0] == 'assign' and sx.int_val(n[2]) == 0) or (n[0] == 'inc' and n[1] == '++') for n in lc_writers)
    entry = {}
    if nonneg:
        for n in f.all_nodes():
            if sx.kind(n) == 'field' and n[3] == 'lossCnt':
                entry[sx.key(n)] = absint.mk(0, absint.INF)
    an = absint.Analyzer(prog, f, entry_state=entry, call_summary=absint.inline_summary(prog), havoc_fields_on_call=False, preserve_fields=('lossCnt',))
    nidx = 0
    for b, i, n in an.cf.find(lambda n: n[0] == 'idx' and sx.kind(sx.strip(n[1])) == 'global' and sx.strip(n[1])[1] in names):
        st = an.state_before_node(b, i, n)
        v = an.ev(n[2], st) if st is not None else None
        dim = prog.globals[sx.strip(n[1])[1]]['dims'][0]
        nidx += 1
        where = '%s:%s' % (f.file, sx.line(n))
        inst = '%s:%s is indexed inside its %d entries' % (prog.config, sx.strip(n[1])[1], dim)
        if v is not None and absint.lo(v) >= 0 and absint.hi(v) < dim:
            rep.holds('R09.2', inst, where, 'index `%s` in %s' % (sx.show(n[2]), absint.show(v)))
        else:
            rep.violated('R09.2', inst, where, 'index `%s` is %s' % (sx.show(n[2]), absint.show(v) if v is not None else 'unknown'), key='att-index:' + sx.strip(n[1])[1])
    if nidx < 3:
        rep.unresolved('R09.2', 'fewer than 3 attenuation table reads in silk_PLC_conceal')
    # lossCnt: incremented by the concealment entry, cleared by a decoded frame
    inc = [(g.name) for g in prog.functions_all for n in g.all_nodes() if n[0] == 'inc' and n[1] == '++' and sx.kind(sx.strip(n[3])) == 'field' and sx.strip(n[3])[3] == 'lossCnt']
    clr = [(g.name) for g in prog.functions_all for n in g.all_nodes() if n[0] == 'assign' and sx.kind(sx.strip_paren(n[1])) == 'field' and sx.strip_paren(n[1])[3] == 'lossCnt' and sx.int_val(n[2]) == 0]
    ok = inc == ['silk_PLC'] and 'silk_decode_frame' in clr
    (rep.holds if ok else rep.violated)('R09.2', '%s:lossCnt counts concealed frames and is cleared by a decoded frame' % prog.config, None, 'incremented in %s, cleared in %s' % (inc, clr),
                                        **({} if ok else {'key': 'losscnt'}))


def r09_3(rep, prog):
    from . import c20
    class _R:
        def __init__(s, rep):
            s.rep = rep
            s.functions = rep.functions
        def holds(s, rule, *a, **k):
            s.rep.holds('R09.3', *a, **k)
        def violated(s, rule, *a, **k):
            s.rep.violated('R09.3', *a, **k)
        def unresolved(s, rule, *a, **k):
            s.rep.unresolved('R09.3', *a, **k)
    c20.r20_5(_R(rep), prog)


def _flag_resolver(vals):
    """vals: {'lost': int or None, 'VAD1': 0/1, 'LBRR1': 0/1}"""
    def res(e):
        e = sx.strip(e)
        if sx.kind(e) in ('param', 'local') and (e[2] if sx.kind(e) == 'param' else e[1]) == 'lostFlag':
            return vals.get('lost')
        if sx.kind(e) == 'idx':
            b = sx.strip(e[1])
            if sx.kind(b) == 'field' and b[3] in ('VAD_flags', 'LBRR_flags'):
                # which channel: state index 1 (side) only
                base = sx.show(b)
                if '[1]' in base.replace(' ', ''):
                    return vals.get('VAD1' if b[3] == 'VAD_flags' else 'LBRR1')
        return None
    return res


def _enabled_with(cf, block, res):
    """False if block is unreachable when conditions are evaluated with the resolver, else None (may)"""
    seen = {cf.entry}
    work = [cf.entry]
    while work:
        b = work.pop()
        es = cf.edges(b)
        c = cf.cond(b)
        v = decide.ev3(c, {}, res) if c is not None and len(es) == 2 and es[0][1] is not None else None
        for s, pol in es:
            if v is not None and pol is not None and bool(v) != pol:
                continue
            if s not in seen:
                seen.add(s)
                work.append(s)
    return None if block in seen else False


def r09_4(rep, prog):
    d = prog.fn('silk_Decode')
    e = prog.fn('silk_Encode')
    rep.functions.update({d.name, e.name})
    cd, ce = cfgm.CFG(d), cfgm.CFG(e)
    dsites = T.calls_to(cd, 'silk_stereo_decode_mid_only')
    esites = T.calls_to(ce, 'silk_stereo_encode_mid_only')
    if len(dsites) != 2 or len(esites) != 2:
        rep.unresolved('R09.4', 'expected 2 decode and 2 encode mid-only sites (found %d, %d)' % (len(dsites), len(esites)))
        return
    # classify sites: inside the "skip/ code LBRR data" loops (guarded by LBRR_flags[n][i]) or the per-frame one
    def table(cf, site, lost):
        t = {}
        for vad in (0, 1):
            for lb in (0, 1):
                t[(vad, lb)] = _enabled_with(cf, site[0], _flag_resolver({'lost': lost, 'VAD1': vad, 'LBRR1': lb}))
        return t
    FLAG_NORMAL, FLAG_LBRR = 0, 2
    # decoder frame site = the one whose guards mention lostFlag
    def mentions_lost(cf, b):
        return any((sx.kind(n) == 'param' and n[2] == 'lostFlag') for cond, pol, gb in cfgm.guards_of(cf, b) if cond is not None for n in sx.walk(cond)) or \
            any(sx.kind(n) == 'param' and n[2] == 'lostFlag' for p_ in cf.pred[b] if cf.cond(p_) is not None for n in sx.walk(cf.cond(p_)))
    dskip = [s for s in dsites if s[0] in cd.reachable_from(s[0])]          # inside the loop that skips LBRR data
    dframe = [s for s in dsites if s not in dskip]
    if len(dframe) != 1 or len(dskip) != 1:
        rep.unresolved('R09.4', 'cannot tell the per-frame mid-only decode from the LBRR-skip one')
        return
    want_normal = {(0, 0): None, (0, 1): None, (1, 0): False, (1, 1): False}     # present iff side VAD flag == 0
    want_lbrr = {(0, 0): None, (1, 0): None, (0, 1): False, (1, 1): False}       # present iff side LBRR flag == 0
    rows = [('decoder, normal frame', table(cd, dframe[0], FLAG_NORMAL), want_normal, dframe[0]),
            ('decoder, FEC (LBRR) frame', table(cd, dframe[0], FLAG_LBRR), want_lbrr, dframe[0]),
            ('decoder, skipping LBRR data', table(cd, dskip[0], FLAG_NORMAL), want_lbrr, dskip[0])]
    # encoder: the site under the LBRR coding loop reads LBRR_flags, the other VAD_flags
    for s in esites:
        tn = table(ce, s, None)
        kind_ = 'LBRR' if tn == want_lbrr else ('normal' if tn == want_normal else 'other')
        rows.append(('encoder, %s data' % kind_, tn, want_lbrr if kind_ == 'LBRR' else want_normal, s))
    kinds = sorted(r[0] for r in rows if r[0].startswith('encoder'))
    if kinds != ['encoder, LBRR data', 'encoder, normal data']:
        rep.violated('R09.4', '%s:encoder codes the mid-only flag of LBRR frames under the side LBRR flag and of normal frames under the side VAD flag' % prog.config, e.where(),
                     'encoder sites classify as %s' % kinds, key='enc-midonly')
    for name, got, want, site in rows:
        where = '%s:%s' % ((d if name.startswith('decoder') else e).file, sx.line(site[2]))
        inst = '%s:mid-only flag present iff the side channel %s flag is 0 (%s)' % (prog.config, 'LBRR' if want is want_lbrr else 'VAD', name)
        if got == want:
            rep.holds('R09.4', inst, where, 'decision table over (VAD1, LBRR1) matches')
        else:
            diff = {k: ('absent' if got[k] is False else 'read') for k in got if got[k] != want[k]}
            rep.violated('R09.4', inst, where, 'for (side VAD, side LBRR) = %s the symbol is %s here but the other side of the codec does the opposite: the range decoder desynchronises and the "restored" frame is garbage' %
                         (sorted(diff), sorted(set(diff.values()))), key='midonly:' + name)


def r09_5(rep, prog):
    recs = [r for r in prog.records.values() if any(fl['name'] == 'loss_duration' for fl in r['fields'])]
    if not recs:
        rep.unresolved('R09.5', 'no state with a loss_duration field')
        return
    stores = []
    for g in prog.functions_all:
        if not g.file.startswith('celt/'):
            continue
        for n in g.all_nodes():
            if n[0] == 'assign' and sx.kind(sx.strip_paren(n[1])) == 'field' and sx.strip_paren(n[1])[3] == 'loss_duration':
                stores.append((g, n))
    sat = [(g, n) for g, n in stores if T_minmax(n[2]) and T_minmax(n[2])[0] == 'min' and any(sx.int_val(x) is not None for x in T_minmax(n[2])[1:])]
    zero = [(g, n) for g, n in stores if sx.int_val(n[2]) == 0]
    other = [(g, n) for g, n in stores if (g, n) not in sat and (g, n) not in zero]
    ok = bool(sat) and bool(zero) and not other and any(g.name.startswith('celt_decode_with_ec') for g, n in zero)
    (rep.holds if ok else rep.violated)('R09.5', '%s:CELT loss counter saturates during concealment and is cleared by a received frame' % prog.config,
                                        '%s:%s' % (stores[0][0].file, sx.line(stores[0][1])) if stores else None,
                                        'saturating updates in %s, cleared in %s, other stores %s' % (sorted({g.name for g, n in sat}), sorted({g.name for g, n in zero}), [sx.show(n) for g, n in other]),
                                        **({} if ok else {'key': 'loss-duration'}))
    # bounded rise of the background noise estimate
    hits = []
    for g in prog.functions_all:
        if not g.name.startswith('celt_decode_with_ec'):
            continue
        for n in g.all_nodes():
            if n[0] == 'assign' and sx.kind(n[1]) == 'local' and 'background' in n[1][1] and any(sx.kind(x) == 'field' and x[3] == 'loss_duration' for x in sx.walk(n[2])):
                hits.append((g, n))
    inst = '%s:rise of the CELT background-noise estimate after an outage is bounded by a constant' % prog.config
    if len(hits) != 1:
        rep.unresolved('R09.5', 'background-increase computation not found (%d)' % len(hits))
    else:
        g, n = hits[0]
        an = absint.Analyzer(prog, g, call_summary=absint.inline_summary(prog))
        # the integer factor that multiplies the per-frame constant
        factors = [x for x in sx.walk(n[2]) if (T_minmax(x) is not None) or (sx.kind(x) == 'bin' and x[1] == '+' and any(sx.kind(y) == 'field' and y[3] == 'loss_duration' for y in sx.walk(x)))]
        mm = [x for x in factors if T_minmax(x) is not None and T_minmax(x)[0] == 'min']
        bound = None
        if mm:
            bound = min(v for v in (sx.int_val(T_minmax(mm[0])[1]), sx.int_val(T_minmax(mm[0])[2])) if v is not None) if any(sx.int_val(t) is not None for t in T_minmax(mm[0])[1:]) else None
        where = '%s:%s' % (g.file, sx.line(n))
        if bound is not None and 0 < bound <= 1000:
            rep.holds('R09.5', inst, where, 'integer factor min(%d, loss_duration + M)' % bound)
        else:
            rep.violated('R09.5', inst, where, '`%s` grows with the length of the outage without bound: one packet after a long loss lifts the noise floor by tens of dB and the next concealment no longer fades' % sx.show(n)[:90], key='background-increase')
    # energy prediction made safe after loss: the safety block is guarded by loss_duration != 0
    g = [x for x in prog.functions_all if x.name.startswith('celt_decode_with_ec')]
    if g:
        cf = cfgm.CFG(g[0])
        def m_intra(c):
            return c is not None and any(sx.kind(x) == 'local' and 'intra' in x[1] for x in sx.walk(c))
        gb = [b for b in cf.blocks if cf.cond(b) is not None and any(sx.kind(x) == 'field' and x[3] == 'loss_duration' for x in sx.walk(cf.cond(b))) and
              (m_intra(cf.cond(b)) or any(m_intra(cf.cond(p_)) for p_ in cf.pred[b]))]
        ok = len(gb) >= 1
        (rep.holds if ok else rep.violated)('R09.5', '%s:inter-frame energy prediction is made safe on the first frame after a loss' % prog.config, g[0].where(),
                                            '%d guard(s) `!intra_ener && loss_duration != 0`' % len(gb), **({} if ok else {'key': 'safe-prediction'}))


def r09_7(rep, prog):
    """the three places that decide whether an LBRR frame is conditionally coded agree: the encoder
    (silk_Encode), the decoder's LBRR-skip loop and the decoder's FEC path all use
    `frame index > 0 and LBRR flag of the SAME channel for the PREVIOUS frame` - decision tables over
    (channel, frame index, LBRR flags of both channels)."""
    import itertools
    sites = []
    for fname in ('silk_Encode', 'silk_Decode'):
        f = prog.fn(fname)
        cf = cfgm.CFG(f)
        for b, i, n in cf.find(lambda n: n[0] == 'assign' and sx.kind(n[1]) == 'local' and n[1][1] == 'condCoding'):
            rhs = sx.strip(n[2])
            reads_flags = any(sx.kind(x) == 'field' and x[3] == 'LBRR_flags' for x in sx.walk(rhs))
            guarded = any(any(sx.kind(x) == 'field' and x[3] == 'LBRR_flags' for x in sx.walk(cf.cond(p_))) for p_ in cf.pred[b] if cf.cond(p_) is not None)
            if sx.int_val(rhs) == 2 and guarded:
                sites.append((f, cf, b, n, 'branch'))
            elif reads_flags:
                sites.append((f, cf, b, n, 'expr'))
    if len(sites) != 3:
        # a decision taken under the decoder's FEC flag that no longer consults the per-frame flags is a disagreement, not a vanished anchor
        for fname in ('silk_Decode',):
            f = prog.fn(fname)
            cf = cfgm.CFG(f)
            for b, i, n in cf.find(lambda n: n[0] == 'assign' and sx.kind(n[1]) == 'local' and n[1][1] == 'condCoding'):
                g = cfgm.guards_of(cf, b)
                fec = any(c is not None and pol and any(sx.kind(y) == 'param' and y[2] == 'lostFlag' for y in sx.walk(c)) and any(sx.int_val(y) == 2 for y in sx.walk(c)) for c, pol, gb in g[:2])
                reads = any(sx.kind(x) == 'field' and x[3] == 'LBRR_flags' for x in sx.walk(n[2])) or any(c is not None and any(sx.kind(x) == 'field' and x[3] == 'LBRR_flags' for x in sx.walk(c)) for c, pol, gb in g[:1])
                if fec and not reads and sx.int_val(sx.strip(n[2])) is None:
                    rep.violated('R09.7', '%s:%s decides the coding mode of an LBRR frame from the LBRR flag of the previous frame of the same channel' % (prog.config, fname), '%s:%s' % (f.file, sx.line(n)),
                                 'under the FEC flag the decision is `%s`, which does not read the per-frame LBRR_flags[]: an LBRR frame that follows a frame without LBRR data is decoded conditionally although it was coded independently' % sx.show(n)[:70],
                                 key='silk_Decode:fec-condcoding')
                    return
        rep.unresolved('R09.7', 'expected 3 LBRR conditional-coding decisions (encoder, decoder skip loop, decoder FEC path), found %d' % len(sites))
        return
    for f, cf, b, n, kind_ in sites:
        loc = {l['name']: ('local', l['id']) for l in f.locals.values()}
        # the loop / frame index variable used by this site
        idxvar = None
        for x in sx.walk(n[2] if kind_ == 'expr' else [c for p_ in cf.pred[b] for c in [cf.cond(p_)] if c is not None][0]):
            if sx.kind(x) == 'idx' and sx.kind(sx.strip(x[1])) == 'field' and sx.strip(x[1])[3] == 'LBRR_flags':
                for y in sx.walk(x[2]):
                    if sx.kind(y) == 'local':
                        idxvar = y[1]
        bad = None
        ncase = 0
        # the decoder's skip loop runs in normal decoding, its FEC path with lostFlag == FLAG_DECODE_LBRR
        lost_val = 2
        if f.name == 'silk_Decode' and kind_ == 'branch':
            lost_val = 0
        for ch, idx in itertools.product((0, 1), (0, 1, 2)):
            for flags in itertools.product((0, 1), repeat=6):
                fl = (flags[:3], flags[3:])

                def res(e, ch=ch, idx=idx, fl=fl):
                    e = sx.strip(e)
                    if sx.kind(e) == 'local':
                        if e[1] == 'n':
                            return ch
                        if e[1] == idxvar:
                            return idx
                    if sx.kind(e) == 'param' and e[2] == 'lostFlag':
                        return lost_val
                    if sx.kind(e) == 'idx' and sx.kind(sx.strip(e[1])) == 'field' and sx.strip(e[1])[3] == 'LBRR_flags':
                        base = sx.strip(sx.strip(e[1])[1])
                        while sx.kind(base) == 'field':
                            base = sx.strip(base[1])
                        c_ = decide.ev3(base[2], {}, res) if sx.kind(base) == 'idx' else None
                        k_ = decide.ev3(e[2], {}, res)
                        if c_ in (0, 1) and k_ is not None and 0 <= k_ <= 2:
                            return fl[c_][k_]
                        return None
                    return None
                want = 1 if (idx > 0 and fl[ch][idx - 1]) else 0
                if kind_ == 'branch' and not fl[ch][idx]:
                    continue          # the site is only evaluated for frames that carry LBRR data
                if kind_ == 'branch':
                    got = 0 if _enabled_with(cf, b, res) is False else 1
                else:
                    if _enabled_with(cf, b, res) is False:
                        continue
                    v = decide.ev3(n[2], {}, res)
                    got = None if v is None else (1 if v == 2 else 0)
                ncase += 1
                if got != want and bad is None:
                    bad = (ch, idx, fl, got, want)
        where = '%s:%s' % (f.file, sx.line(n))
        inst = '%s:%s line %s codes an LBRR frame conditionally iff the same channel has LBRR data for the previous frame' % (prog.config, f.name, sx.line(n))
        if bad:
            rep.violated('R09.7', inst, where, 'channel %d, frame %d, LBRR flags mid=%s side=%s: this site decides %s, the other side of the codec decides %s - the range decoder desynchronises on the LBRR data' %
                         (bad[0], bad[1], list(bad[2][0]), list(bad[2][1]), {1: 'conditional', 0: 'independent', None: 'unknown'}[bad[3]], 'conditional' if bad[4] else 'independent'), key='lbrr-cond:%s:%s' % (f.name, kind_))
        else:
            rep.holds('R09.7', inst, where, '%d (channel, frame, flags) cases' % ncase, n=ncase)


def r09_6(rep, prog):
    """LBRR gains are dequantised by the encoder the way the LBRR frame is emitted:
    silk_Encode writes LBRR frame i with conditional coding iff i > 0 and frame i-1 has LBRR data;
    the `conditional` flag the LBRR encoder hands to silk_gains_dequant must equal that for every
    reachable (frame index, previous LBRR flag, coding mode of the regular frame)."""
    name = 'silk_LBRR_encode_FLP' if prog.has_fn('silk_LBRR_encode_FLP') else 'silk_LBRR_encode_FIX'
    if not prog.has_fn(name):
        rep.unresolved('R09.6', 'LBRR encoder function not found')
        return
    f = prog.fn(name)
    rep.functions.add(name)
    pc = f.param_index('condCoding')
    # emission rule read from silk_Encode: the block that sets condCoding = CODE_CONDITIONALLY in the LBRR loop
    e = prog.fn('silk_Encode')
    ce = cfgm.CFG(e)
    emit = None
    for b, i, n in ce.find(lambda n: n[0] == 'assign' and sx.kind(n[1]) == 'local' and n[1][1] == 'condCoding' and sx.int_val(n[2]) == 2):
        conds = [(c, pol) for c, pol, gb in cfgm.guards_of(ce, b) if c is not None]
        # the innermost condition chain mentions LBRR_flags[i-1]
        if any(any(sx.kind(x) == 'field' and x[3] == 'LBRR_flags' for x in sx.walk(c)) for c, pol in conds) or \
                any(any(sx.kind(x) == 'field' and x[3] == 'LBRR_flags' for x in sx.walk(ce.cond(p_))) for p_ in ce.pred[b] if ce.cond(p_) is not None):
            emit = b
    if emit is None or pc is None:
        rep.unresolved('R09.6', 'cannot find the LBRR conditional-coding decision in silk_Encode / the condCoding parameter of %s' % name)
        return
    bad = None
    ncase = 0
    for nfe in (0, 1, 2):
        for prev in (0, 1):
            for cc in (0, 1, 2):
                if cc == 2 and nfe == 0:
                    continue          # silk_Encode never codes the first frame of a packet conditionally
                if nfe == 0 and prev == 1:
                    continue
                if cc == 0 and nfe > 0:
                    continue          # independent coding of the regular frame is chosen only for a channel's first frame of the packet
                if cc == 1 and prev == 1:
                    continue          # NO_LTP_SCALING follows a skipped side frame, for which no LBRR data was produced
                # encoder emission under (i = nfe, LBRR_flags[i-1] = prev)
                def res_e(x):
                    x = sx.strip(x)
                    if sx.kind(x) == 'local' and x[1] == 'i':
                        return nfe
                    if sx.kind(x) == 'idx' and sx.kind(sx.strip(x[1])) == 'field' and sx.strip(x[1])[3] == 'LBRR_flags' and 'i-1' in sx.show(x[2]).replace(' ', '').replace('(', '').replace(')', ''):
                        return prev
                    return None
                want = _enabled_with(ce, emit, res_e) is not False
                # LBRR encoder: value of the `conditional` argument at the dequant call
                def hook(an_, node, st_):
                    n_ = sx.strip(node)
                    if sx.kind(n_) == 'idx' and sx.kind(sx.strip(n_[1])) == 'field' and sx.strip(n_[1])[3] == 'LBRR_flags':
                        return absint.const(prev)
                    if sx.kind(n_) == 'field' and n_[3] == 'nFramesEncoded':
                        return absint.const(nfe)
                    if sx.kind(n_) == 'field' and n_[3] == 'LBRR_enabled':
                        return absint.const(1)
                    return None
                an = absint.Analyzer(prog, f, entry_state={('param', pc): absint.const(cc)}, call_summary=absint.inline_summary(prog), havoc_fields_on_call=False, load_hook=hook)
                got = None
                for b, i, c in an.cf.find(lambda c: c[0] == 'call' and sx.callee_name(c) == 'silk_gains_dequant' and len(c[2]) == 5 and sx.int_val(c[2][4]) != 1):
                    st = an.state_before_node(b, i, c)
                    if st is not None:
                        v = an.ev(c[2][3], st)
                        vs = absint.values(v, 4)
                        got = set(vs) if vs is not None else None
                ncase += 1
                if got is None:
                    rep.unresolved('R09.6', 'cannot evaluate the conditional flag of silk_gains_dequant in %s for (frame %d, prev LBRR %d, coding %d)' % (name, nfe, prev, cc), f.where())
                    return
                if got != {1 if want else 0} and bad is None:
                    bad = (nfe, prev, cc, sorted(got), want)
    inst = '%s:%s dequantises the LBRR gains with the coding mode the LBRR frame is emitted with' % (prog.config, name)
    if bad:
        rep.violated('R09.6', inst, f.where(), 'frame %d of a packet, previous frame %s LBRR data, regular frame coding mode %d: gains dequantised with conditional=%s but silk_Encode emits the LBRR frame %s - a delta index is written as an absolute one and FEC recovers the frame far too quiet' %
                     (bad[0], 'has' if bad[1] else 'has no', bad[2], bad[3], 'conditionally' if bad[4] else 'independently'), key='lbrr-gain-coding:%s' % name)
    else:
        rep.holds('R09.6', inst, f.where(), '%d reachable (frame index, previous LBRR flag, regular coding mode) cases agree with silk_Encode' % ncase, n=ncase)


# ------------------------------------------------------------------ R09.9
def r09_9(rep, prog):
    """FEC is attempted only where LBRR data can exist: when the packet handed in is MDCT-only, or the decoder's
    own mode (the mode of the stream before the loss) is MDCT-only, the FEC request falls back to concealment.  Under
    each of these two valuations the FEC frame decode (the frame-decoder call with decode_fec = 1) is unreachable."""
    f = prog.fn('opus_decode_native')
    cf = cfgm.CFG(f)
    rep.functions.add(f.name)
    fd = {g.name for g in roles.frame_decoders(prog)}
    sites = [(b, i, c) for b, i, c in T.calls_to(cf, tuple(fd)) if sx.int_val(sx.strip(c[2][-1])) == 1 or (len(c[2]) >= 6 and sx.int_val(sx.strip(c[2][5])) == 1)]
    inst0 = '%s:opus_decode_native falls back to concealment when no LBRR data can exist' % prog.config
    if not sites:
        rep.unresolved('R09.9', inst0 + ': FEC frame decode not found')
        return 0
    pm = [l for l in f.locals.values() if l['name'] == 'packet_mode']
    kst = ('param', f.param_index('st'))
    n = 0
    for what, val, entry in (('the packet is MDCT-only', {('local', pm[0]['id']): 1002} if pm else None, False),
                             ('the decoder was in MDCT-only mode', {('field', kst, 'mode'): 1002}, True)):
        if val is None:
            rep.unresolved('R09.9', inst0 + ': packet_mode local not found')
            continue
        n += 1
        feas = decide.feasible_blocks(cf, val, entry=entry)
        reach = [sx.line(c) for b, i, c in sites if b in feas]
        inst = '%s:opus_decode_native conceals instead of decoding FEC when %s' % (prog.config, what)
        where = '%s:%s' % (f.file, sx.line(sites[0][2]))
        if reach:
            rep.violated('R09.9', inst, where, 'the FEC frame decode at line %s is reachable although %s: the SILK decoder is reset and asked for LBRR data that cannot be there, instead of MDCT concealment' % (reach[0], what),
                         key='fec-without-lbrr:%s' % ('packet' if not entry else 'decoder'))
        else:
            rep.holds('R09.9', inst, where, 'FEC frame decode unreachable under %s' % what)
    return n


# ------------------------------------------------------------------ R09.11
def r09_11(rep, prog):
    """the FEC branch of the packet decoder prepares the frame decoder exactly like the normal branch: every call that hands
    packet bytes (not NULL) to the frame decoder is dominated by stores of the same set of packet-derived state fields
    (`st->X = packet_X`: mode, bandwidth, frame size, coded channel count).  A field the FEC branch forgets is taken from
    the last normally decoded packet - wrong as soon as the stream changed it inside the loss gap."""
    from .. import roles
    n = 0
    for f in prog.functions_all:
        if not f.file.startswith('src/opus_decoder'):
            continue
        cf = None
        fd = {g.name for g in roles.frame_decoders(prog)}
        sites = []
        for c in f.calls():
            if sx.callee_name(c) in fd and f.name not in fd and len(c[2]) > 1 and sx.int_val(sx.strip(c[2][1])) is None and sx.kind(sx.strip(c[2][1])) != 'cast':
                sites.append(c)
        if len(sites) < 2:
            continue
        cf = cfgm.CFG(f)
        stores = [(b, i, x) for b, i, x in cf.find(lambda x: x[0] == 'assign' and sx.kind(sx.strip_paren(x[1])) == 'field' and sx.kind(sx.strip(x[2])) == 'local' and sx.strip(x[2])[1].startswith('packet_'))]
        per = []
        for c in sites:
            pos = [(b, i) for b, i, s_ in cf.positions() if any(y is c for y in sx.walk(s_))]
            if not pos:
                continue
            got = {sx.strip_paren(x[1])[3] for b, i, x in stores if cf.pos_dominates((b, i), pos[0])}
            per.append((c, got))
        allf = set().union(*[g for c, g in per]) if per else set()
        for c, got in per:
            n += 1
            rep.functions.add(f.name)
            inst = '%s:%s prepares the frame decoder with every packet-derived field (call at line %s)' % (prog.config, f.name, sx.line(c))
            where = '%s:%s' % (f.file, sx.line(c))
            if got == allf:
                rep.holds('R09.11', inst, where, 'stores %s' % sorted(got))
            else:
                rep.violated('R09.11', inst, where, 'this call is not preceded by a store of %s, which the sibling branch sets from the packet: the frame is decoded with the value left by the last normally decoded packet' % sorted(allf - got),
                             key='%s:frame-decoder-setup:%s' % (f.name, ','.join(sorted(allf - got))))
    return n


def check(rep, prog, tier):
    r09_11(rep, prog)
    r09_9(rep, prog)
    r09_6(rep, prog)
    r09_7(rep, prog)
    from . import chanstate
    chanstate.check(rep, 'R09.8', prog, 'celt_decode_lost', 'CC')
    r09_1(rep, prog)
    r09_2(rep, prog)
    r09_3(rep, prog)
    r09_4(rep, prog)
    r09_5(rep, prog)


def finish(rep, tier, progs):
    # R09.10: the float and fixed-point twins of the LBRR (in-band FEC) encoder keep the same integer bookkeeping under the
    # same branch conditions - which gain index the redundant frame is coded against decides how loud the recovered frame is
    if 'float' in progs and 'fixed' in progs:
        from . import flpfix
        n = flpfix.check(rep, 'R09.10', progs['float'], progs['fixed'], only=lambda name: 'LBRR' in name)
        if not n:
            rep.unresolved('R09.10', 'no LBRR twin pair found')
