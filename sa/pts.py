"""Whole-program, flow-insensitive, field-based may-point-to analysis
(Andersen-style; two levels: what a pointer variable points to, and — collapsed
beyond that — which pointers the memory it points to contains).  Abstract
objects are

   <name>                 a static-storage object (file scope or function static)
   F:<Record>.<field>     "the memory a tracked pointer field points to"
   P:<function>:<i>       "the memory parameter i of a tracked function points to"

It answers: which abstract objects may the lvalue of this store denote?  It is
an over-approximation for pointers that travel through locals, parameters,
returns, struct fields, const pointer tables and mem* copies; stated unsound
corners: pointers laundered through integers or unions, and through varargs.
"""
from . import sx
from .sx import kind, A

MEMCPY_LIKE = {'memcpy', 'memmove', '__builtin_memcpy', '__builtin_memmove', '__memcpy_chk', '__memmove_chk',
               '__builtin___memcpy_chk', '__builtin___memmove_chk', 'strcpy', 'strncpy'}


def _is_ptr_type(t):
    return '*' in t or '[' in t


class PointsTo:
    def __init__(self, prog, track_fields=(), track_params=()):
        self.p = prog
        self.track_fields = set(track_fields)
        self.track_params = set(track_params)
        # level 1 (targets) and contents (collapsed) per variable-like key
        self.t = {}   # key -> set
        self.c = {}   # key -> set
        self.ret_t = {}
        self.ret_c = {}
        self._init_cache = {}
        self._initc_cache = {}
        self.changed = False
        self.iterations = 0
        self._solve()

    # ---- helpers
    def init_targets(self, objs):
        out = set()
        for o in objs:
            s = self._init_cache.get(o)
            if s is None:
                s = set()
                g = self.p.globals.get(o)
                if g is not None and 'init' in g:
                    for it in _flat(g['init']):
                        if isinstance(it, dict) and 'addr' in it and not it.get('isfunc'):
                            s.add(it['addr'])
                self._init_cache[o] = s
            out |= s
        return out

    def field_init_targets(self, objs, fname):
        """addresses stored in member `fname` of the (struct) objects; falls
        back to every address in the initialiser when the shape is unknown"""
        out = set()
        for o in objs:
            g = self.p.globals.get(o)
            if g is None or 'init' not in g:
                continue
            found = False
            for it in _structs(g['init']):
                if fname in it:
                    found = True
                    for a in _flat(it[fname]):
                        if isinstance(a, dict) and 'addr' in a and not a.get('isfunc'):
                            out.add(a['addr'])
            if not found:
                out |= self.init_targets([o])
        return out

    def init_closure(self, objs):
        """everything reachable through initialiser addresses (contents, collapsed)"""
        out = set()
        work = list(objs)
        seen = set()
        while work:
            o = work.pop()
            if o in seen:
                continue
            seen.add(o)
            for t in self.init_targets([o]):
                if t not in out:
                    out.add(t)
                    work.append(t)
        return out

    def _add(self, table, key, s):
        if not s:
            return
        cur = table.get(key)
        if cur is None:
            table[key] = set(s)
            self.changed = True
        elif not s <= cur:
            cur |= s
            self.changed = True

    def fkey(self, f):
        return (f.file, f.name)

    def _varkey(self, f, e):
        k = kind(e)
        if k == 'local':
            return ('L', self.fkey(f), e[2])
        if k == 'param':
            return ('P', self.fkey(f), e[1])
        if k == 'field':
            return ('F', e[2], e[3])
        return None

    # ---- evaluation: level-1 targets of a pointer-valued expression
    def pts(self, f, e):
        k = kind(e)
        if k is None or k in ('int', 'flt', 'str', 'func', 'other', 'stmt', 'va_arg'):
            return set()
        if k == 'global':
            g = self.p.globals.get(e[1])
            if g is not None and not g.get('dims') and g.get('elem_ptr'):
                return self.init_targets([e[1]])     # scalar pointer object: its value
            return {e[1]}                             # array (decays) / record
        if k == 'local':
            return set(self.t.get(('L', self.fkey(f), e[2]), ()))
        if k == 'param':
            s = set(self.t.get(('P', self.fkey(f), e[1]), ()))
            if (f.name, e[1]) in self.track_params:
                s.add('P:%s:%d' % (f.name, e[1]))
            return s
        if k == 'field':
            t = A(e).get('t', 'p')
            if t in ('s', 'f'):
                return set()
            x = self.pts(f, e[1]) if e[4] else self.objs(f, e[1])
            if t in ('r', 'a'):
                return set(x)                         # in-place: same objects as the base
            s = self.field_init_targets(x, e[3]) | self.t.get(('F', e[2], e[3]), set())
            if (e[2], e[3]) in self.track_fields:
                s.add('F:%s.%s' % (e[2], e[3]))
            return s
        if k in ('idx', 'deref'):
            t = A(e).get('t', 'p')
            if t in ('s', 'f'):
                return set()
            if t in ('a', 'r'):
                return self.pts(f, e[1])              # row of a 2-D array / struct element
            return self.cpts(f, e[1])                 # a pointer loaded from memory
        if k == 'addr':
            return self.objs(f, e[1])
        if k == 'bin':
            if e[1] in ('<', '>', '<=', '>=', '==', '!=', '&&', '||'):
                return set()
            return self.pts(f, e[2]) | self.pts(f, e[3])
        if k == 'cond':
            return self.pts(f, e[2]) | self.pts(f, e[3])
        if k == 'comma':
            return self.pts(f, e[2])
        if k == 'assign':
            return self.pts(f, e[2])
        if k == 'cassign':
            return self.pts(f, e[2])
        if k == 'inc':
            return self.pts(f, e[3])
        if k in ('paren', 'complit'):
            return self.pts(f, e[1])
        if k == 'cast':
            return self.pts(f, e[4])
        if k == 'un':
            return self.pts(f, e[2])
        if k == 'call':
            if A(e).get('t', 'p') in ('s', 'f'):
                return set()
            fs, ext, ok = self.p.callees(f, e)
            s = set()
            for g in fs:
                s |= self.ret_t.get(self.fkey(g), set())
            n = sx.callee_name(e)
            if (n in MEMCPY_LIKE or n in ('memset', '__builtin_memset', '__memset_chk')) and e[2]:
                s |= self.pts(f, e[2][0])
            return s
        if k == 'initlist':
            s = set()
            for c in e[1]:
                s |= self.pts(f, c)
            return s
        return set()

    # ---- contents (collapsed) of the memory a pointer-valued expression points to
    def cpts(self, f, e):
        k = kind(e)
        if k is None or k in ('int', 'flt', 'str', 'func', 'other', 'stmt', 'va_arg'):
            return set()
        if k == 'global':
            return self.init_closure([e[1]])
        if k in ('local', 'param'):
            key = self._varkey(f, e)
            return set(self.c.get(key, ())) | self.init_closure(self.t.get(key, ()))
        if k == 'field':
            t = A(e).get('t', 'p')
            if t in ('s', 'f'):
                return set()
            x = self.pts(f, e[1]) if e[4] else self.objs(f, e[1])
            key = ('F', e[2], e[3])
            return (set(self.c.get(key, ())) | self.init_closure(x) | self.init_closure(self.t.get(key, ()))
                    | (self.cpts(f, e[1]) if t in ('a', 'r') else set()))
        if k in ('idx', 'deref'):
            t = A(e).get('t', 'p')
            if t in ('s', 'f'):
                return set()
            return self.cpts(f, e[1])
        if k == 'addr':
            # &x : the memory is x itself; its contents are what x holds
            r = sx.strip(e[1])
            kr = kind(r)
            if kr in ('local', 'param'):
                key = self._varkey(f, r)
                return set(self.t.get(key, ())) | set(self.c.get(key, ())) | self.init_closure(self.t.get(key, ()))
            if kr == 'global':
                return self.init_closure([r[1]])
            if kr == 'field':
                key = ('F', r[2], r[3])
                return set(self.t.get(key, ())) | set(self.c.get(key, ())) | self.cpts(f, r)
            if kr in ('idx', 'deref'):
                return self.cpts(f, r[1])
            return set()
        if k == 'bin':
            if e[1] in ('<', '>', '<=', '>=', '==', '!=', '&&', '||'):
                return set()
            return self.cpts(f, e[2]) | self.cpts(f, e[3])
        if k == 'cond':
            return self.cpts(f, e[2]) | self.cpts(f, e[3])
        if k in ('comma', 'assign'):
            return self.cpts(f, e[2])
        if k == 'cassign':
            return self.cpts(f, e[2])
        if k == 'inc':
            return self.cpts(f, e[3])
        if k in ('paren', 'complit'):
            return self.cpts(f, e[1])
        if k == 'cast':
            return self.cpts(f, e[4])
        if k == 'un':
            return self.cpts(f, e[2])
        if k == 'call':
            if A(e).get('t', 'p') in ('s', 'f'):
                return set()
            fs, ext, ok = self.p.callees(f, e)
            s = set()
            for g in fs:
                s |= self.ret_c.get(self.fkey(g), set())
            return s
        if k == 'initlist':
            s = set()
            for c in e[1]:
                s |= self.cpts(f, c) | self.pts(f, c)
            return s
        return set()

    def objs(self, f, e):
        """abstract objects the lvalue e may denote storage in"""
        k = kind(e)
        if k == 'global':
            return {e[1]}
        if k in ('paren', 'complit'):
            return self.objs(f, e[1])
        if k == 'cast':
            return self.objs(f, e[4])
        if k == 'idx':
            b = sx.strip_paren(e[1])
            # in-place array (local array, array field, row of a global array):
            # the element lives in the same object as the array
            if self._is_inplace_array(f, b):
                return self.objs(f, b)
            return self.pts(f, e[1])
        if k == 'deref':
            return self.pts(f, e[1])
        if k == 'field':
            if e[4]:
                return self.pts(f, e[1])
            return self.objs(f, e[1])
        if k == 'cond':
            return self.objs(f, e[2]) | self.objs(f, e[3])
        if k == 'comma':
            return self.objs(f, e[2])
        if k == 'assign':
            return self.objs(f, e[1])
        if k == 'inc':
            return self.objs(f, e[3])
        return set()

    def _is_inplace_array(self, f, b):
        k = kind(b)
        if k == 'local':
            l = f.locals.get(b[2])
            return bool(l) and '[' in l['type']
        if k in ('field', 'idx', 'deref'):
            return A(b).get('t') == 'a'
        if k == 'global':
            g = self.p.globals.get(b[1])
            return bool(g and g.get('dims'))
        return False

    # ---- constraint collection
    def _target(self, f, l):
        """(variable key, level) receiving a value stored to lvalue l.
        level 1: the variable itself is assigned; level 2: memory reached
        through it (collapsed)."""
        e = l
        lvl = 1
        while True:
            k = kind(e)
            if k == 'paren':
                e = e[1]
            elif k == 'cast':
                e = e[4]
            elif k == 'field':
                if A(e).get('t') in ('a',) or lvl == 2:
                    return ('F', e[2], e[3]), 2
                if A(e).get('t') == 'r':
                    # nested struct: keep walking to find nothing better; key on this field
                    return ('F', e[2], e[3]), lvl
                return ('F', e[2], e[3]), lvl
            elif k == 'local':
                return ('L', self.fkey(f), e[2]), lvl
            elif k == 'param':
                return ('P', self.fkey(f), e[1]), lvl
            elif k in ('idx', 'deref'):
                lvl = 2
                e = e[1]
            elif k == 'bin':
                a, b = e[2], e[3]
                e = a if sx._ptrish(a) or not sx._ptrish(b) else b
            elif k == 'addr':
                e = e[1]
            elif k == 'inc':
                e = e[3]
            elif k == 'assign':
                e = e[1]
            elif k == 'cassign':
                e = e[2]
            elif k == 'cond':
                e = e[2]
            else:
                return None, lvl

    def _could_hold_pointer(self, f, key):
        if key is None:
            return False
        if key[0] == 'L':
            l = f.locals.get(key[2])
            if l is None:
                return True
            if _is_ptr_type(l['type']):
                return True
            return 'bits' not in l and l['type'] not in ('float', 'double', 'opus_val16', 'opus_val32', 'celt_sig',
                                                       'celt_norm', 'celt_ener', 'silk_float', 'opus_res', 'celt_glog')
        if key[0] == 'P':
            return _is_ptr_type(f.params[key[2]]['type']) if 0 <= key[2] < len(f.params) else True
        if key[0] == 'F':
            r = self.p.records.get(key[1])
            if r is None:
                return True
            for fl in r['fields']:
                if fl['name'] == key[2]:
                    return fl['ptr'] or 'record' in fl
            return True
        return True

    def _collect(self):
        cons = []
        for f in self.p.functions_all:
            assigns, calls, rets = [], [], []
            for n in f.all_nodes():
                k = n[0]
                if k == 'assign':
                    key, lvl = self._target(f, n[1])
                    if self._could_hold_pointer(f, key) and kind(sx.strip(n[2])) not in ('int', 'flt'):
                        assigns.append((key, lvl, n[2]))
                elif k == 'decls':
                    for d in n[1]:
                        if d[0] == 'decl' and d[3] is not None:
                            key = ('L', self.fkey(f), d[2])
                            if self._could_hold_pointer(f, key) and kind(sx.strip(d[3])) not in ('int', 'flt'):
                                lvl = 2 if kind(d[3]) == 'initlist' else 1
                                assigns.append((key, lvl, d[3]))
                elif k == 'call':
                    calls.append(n)
                elif k == 'ret':
                    if n[1] is not None and _is_ptr_type(f.d['ret']):
                        rets.append(n[1])
            cons.append((f, assigns, calls, rets))
        self._constraints = cons

    def _solve(self):
        self._collect()
        for it in range(60):
            self.changed = False
            self.iterations = it + 1
            for f, assigns, calls, rets in self._constraints:
                fk = self.fkey(f)
                for key, lvl, rhs in assigns:
                    if lvl == 1:
                        self._add(self.t, key, self.pts(f, rhs))
                        self._add(self.c, key, self.cpts(f, rhs))
                    else:
                        self._add(self.c, key, self.pts(f, rhs) | self.cpts(f, rhs))
                for r in rets:
                    self._add(self.ret_t, fk, self.pts(f, r))
                    self._add(self.ret_c, fk, self.cpts(f, r))
                for c in calls:
                    fs, ext, ok = self.p.callees(f, c)
                    args = c[2]
                    for g in fs:
                        gk = self.fkey(g)
                        for j, a in enumerate(args):
                            if j < len(g.params) and _is_ptr_type(g.params[j]['type']):
                                self._add(self.t, ('P', gk, j), self.pts(f, a))
                                self._add(self.c, ('P', gk, j), self.cpts(f, a))
                    n = sx.callee_name(c)
                    if n in MEMCPY_LIKE and len(args) >= 2:
                        key, lvl = self._target(f, args[0])
                        if self._could_hold_pointer(f, key):
                            self._add(self.c, key, self.cpts(f, args[1]))
            if not self.changed:
                break

    # ---- store enumeration
    def stores(self, f):
        """yield (lvalue, node, how) for every write performed by f:
        assignments, compound assignments, ++/--, mem* destinations, external
        callees' non-const pointer parameters, asm outputs"""
        for n in f.all_nodes():
            k = n[0]
            if k == 'assign':
                yield n[1], n, 'assign'
            elif k == 'cassign':
                yield n[2], n, 'cassign'
            elif k == 'inc':
                yield n[3], n, 'inc'
            elif k == 'asm':
                for c, e in n[1]:
                    yield e, n, 'asm-output'
            elif k == 'call':
                name = sx.callee_name(n)
                if name is None:
                    continue
                g = self.p.resolve_in(f, name)
                if g is not None:
                    # variadic callee (the ctl functions): the extra arguments are not parameters the points-to propagation
                    # can follow; an `&object` passed there is written through by the matching va_arg(T*) store
                    for j in range(len(g.params), len(n[2])):
                        # (the request macros wrap the pointer:  ptr + (ptr - (T*)ptr) )
                        ads = [y for y in sx.walk(n[2][j]) if sx.kind(y) == 'addr']
                        if ads:
                            yield ['deref', ads[0], {'t': 's'}], n, 'variadic:%s:arg%d' % (name, j)
                    continue
                for j in A(n).get('wp', []):
                    if j < len(n[2]):
                        yield ['deref', n[2][j], {'t': 's'}], n, 'extern:%s:arg%d' % (name, j)


def _flat(x):
    if isinstance(x, list):
        for y in x:
            yield from _flat(y)
    elif isinstance(x, dict) and 'addr' not in x and 'str' not in x and 'complit' not in x and 'lvalue' not in x:
        for y in x.values():
            yield from _flat(y)
    else:
        yield x


def _structs(x):
    """every struct-valued (dict) node of an initialiser"""
    if isinstance(x, list):
        for y in x:
            yield from _structs(y)
    elif isinstance(x, dict) and 'addr' not in x and 'str' not in x and 'complit' not in x and 'lvalue' not in x:
        yield x
        for y in x.values():
            yield from _structs(y)
