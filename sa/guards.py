"""Branch facts: what is known to hold at a CFG block because of the branches
that every path to it has taken (edge dominance), in a small normal form.

atom = (op, L, R) with op in '<' '<=' '==' '!=' and L, R structural keys
(sx.key) of side-effect-free expressions; integer constants are ('int', v).
"""
from . import sx, cfg as cfgm

NEG = {'<': '>=', '<=': '>', '>': '<=', '>=': '<', '==': '!=', '!=': '=='}


def _norm(op, a, b):
    if op == '>':
        return ('<', b, a)
    if op == '>=':
        return ('<=', b, a)
    if op in ('==', '!=') and a[0] == 'int' and b[0] != 'int':
        return (op, b, a)
    return (op, a, b)


def atoms(cond, polarity):
    """atomic facts implied by `cond` having truth value `polarity`"""
    e = sx.strip_paren(cond)
    k = sx.kind(e)
    if k == 'cast' and sx.A(e).get('impl'):
        return atoms(e[4], polarity)
    if k == 'un' and e[1] == '!':
        return atoms(e[2], not polarity)
    if k == 'bin' and e[1] in ('<', '<=', '>', '>=', '==', '!='):
        op = e[1] if polarity else NEG[e[1]]
        a, b = _assigned_value(e[2]), _assigned_value(e[3])
        return [_norm(op, _okey(a), _okey(b))]
    if k == 'bin' and e[1] == '&&':
        if polarity:
            return atoms(e[2], True) + atoms(e[3], True)
        return []
    if k == 'bin' and e[1] == '||':
        if not polarity:
            return atoms(e[2], False) + atoms(e[3], False)
        return []
    if k == 'call' and sx.callee_name(e) == '__builtin_expect':
        return atoms(e[2][0], polarity)
    if k is None:
        return []
    v = _assigned_value(e)
    return [_norm('!=' if polarity else '==', _okey(v), ('int', 0))]


def _okey(e):
    """operand key: constants (incl. the null pointer constant (void*)0) are ('int', v)"""
    v = sx.int_val(e)
    if v is not None:
        return ('int', v)
    s = sx.strip(e)
    if sx.kind(s) in ('local', 'param'):
        return sx.key(s)
    return sx.key(e)


def _assigned_value(e):
    """(x = f()) compared with something: the fact is about x"""
    e = sx.strip_paren(e)
    if sx.kind(e) == 'assign':
        return e[1]
    return e


def facts_at(cfg, block):
    out = []
    for cond, pol, gb in cfgm.guards_of(cfg, block):
        if cond is None or pol is None:
            continue
        for a in atoms(cond, pol):
            out.append((a, gb))
    return out


def _cmp_const(op, c1, op2, c2):
    """x op c1 implies x op2 c2 ?  (x on the left)"""
    if op == '==':
        return {'<': c1 < c2, '<=': c1 <= c2, '==': c1 == c2, '!=': c1 != c2, '>': c1 > c2, '>=': c1 >= c2}[op2]
    if op == '<':
        return {'<': c1 <= c2, '<=': c1 - 1 <= c2, '!=': c2 >= c1}.get(op2, False)
    if op == '<=':
        return {'<': c1 < c2, '<=': c1 <= c2, '!=': c2 > c1}.get(op2, False)
    if op == '>':
        return {'>': c1 >= c2, '>=': c1 + 1 >= c2, '!=': c2 <= c1}.get(op2, False)
    if op == '>=':
        return {'>': c1 > c2, '>=': c1 >= c2, '!=': c2 < c1}.get(op2, False)
    if op == '!=':
        return op2 == '!=' and c1 == c2
    return False


def _as_left(atom, x):
    """view atom as  x OP other ; returns (OP, other) or None"""
    op, a, b = atom
    if a == x:
        return op, b
    if b == x:
        flip = {'<': '>', '<=': '>=', '==': '==', '!=': '!='}
        return flip[op], a
    return None


def implies(known, req):
    """does the set of known atoms imply atom req? (syntactic + constants)"""
    rop, ra, rb = req
    for k in known:
        if k == req:
            return True
    # constant reasoning on one variable
    for x, other, op in ((ra, rb, rop), (rb, ra, {'<': '>', '<=': '>=', '==': '==', '!=': '!='}[rop])):
        if other[0] != 'int':
            continue
        for k in known:
            v = _as_left(k, x)
            if v is None:
                continue
            kop, kother = v
            if kother[0] == 'int' and _cmp_const(kop, kother[1], op, other[1]):
                return True
    # same operands, weaker relation
    for k in known:
        v = _as_left(k, ra)
        if v and v[1] == rb:
            kop = v[0]
            if (kop, rop) in (('<', '<='), ('<', '!='), ('==', '<='), ('==', '>='), ('>', '>='), ('>', '!=')):
                return True
    return False


def K(e):
    return sx.key(e)


def I(v):
    return ('int', v)


def param(f, name_or_idx):
    if isinstance(name_or_idx, int):
        return ('param', name_or_idx)
    i = f.param_index(name_or_idx)
    return ('param', i) if i is not None else None


def _vars_of(key, out):
    """variable-like sub-keys (param/local/field paths) of an expression key"""
    if not isinstance(key, tuple) or not key:
        return
    if key[0] in ('param', 'local'):
        out.add(key)
        return
    if key[0] == 'field':
        out.add(key)
        _vars_of(key[1], out)
        return
    for c in key[1:]:
        if isinstance(c, tuple):
            _vars_of(c, out)


def vars_of_atom(atom):
    s = set()
    _vars_of(atom[1], s)
    _vars_of(atom[2], s)
    return s


def modified_between(cfg, guard_block, sink_block, keys, sink_index=None, prog=None):
    """stores to any of the variable keys on some path guard -> sink.
    Returns a list of (block, stmt) that modify; empty = stable."""
    if not keys:
        return []
    # paths from the guard to the sink that do not re-evaluate the guard: a
    # modification after which the guard is tested again (loop latch) does not
    # invalidate the fact
    fwd = cfg.reachable_from(guard_block, avoid=(guard_block,))
    back = {sink_block}
    work = [sink_block]
    while work:
        n = work.pop()
        for p in cfg.pred.get(n, []):
            if p not in back and p != guard_block:
                back.add(p)
                work.append(p)
    region = (fwd & back) - {guard_block}
    out = []
    for b in region:
        blk = cfg.blocks[b]
        stmts = cfg.f.block_exprs(blk)
        if b == sink_block and sink_index is not None and sink_block not in cfg.reachable_from(sink_block, avoid=(guard_block,)):
            stmts = stmts[:sink_index]
        for s in stmts:
            const_args = set()
            for n in sx.walk(s):
                if n[0] == 'call' and prog is not None:
                    # &x passed to a pointer-to-const parameter is a read
                    cn = sx.callee_name(n)
                    callee = prog.functions.get(cn) if cn else None
                    for j, a in enumerate(n[2]):
                        a = sx.strip(a)
                        if sx.kind(a) == 'addr' and callee is not None and j < len(callee.params) \
                                and callee.params[j].get('pointee_const'):
                            const_args.add(id(a))
            for n in sx.walk(s):
                tgt = None
                if n[0] == 'addr' and id(n) in const_args:
                    continue
                if n[0] == 'assign':
                    tgt = n[1]
                elif n[0] == 'cassign':
                    tgt = n[2]
                elif n[0] == 'inc':
                    tgt = n[3]
                elif n[0] == 'addr':
                    tgt = n[1]
                elif n[0] == 'decls':
                    for d in n[1]:
                        if d[0] == 'decl' and ('local', d[2]) in keys and d[3] is not None:
                            out.append((b, n))
                    continue
                if tgt is not None and sx.key(sx.strip(tgt)) in keys:
                    out.append((b, n))
    return out
