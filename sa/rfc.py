"""Parser for the normative tables printed in RFC 6716, whose xml2rfc source
is shipped in the repository (doc/draft-ietf-codec-opus.xml).  It is an oracle
for table VALUES that is independent of the C sources: the text was written
for humans and gives PDFs ({f0, f1, ...}/256) where the code stores inverse
CDFs, row-per-index codebooks where the code stores flat arrays, and so on.

Only <texttable> elements are read: columns from <ttcol>, cells from <c>.
"""
import hashlib, os, re
from .compdb import AnalysisBroken, REPO

XML = 'doc/draft-ietf-codec-opus.xml'

_TT = re.compile(r'<texttable\b([^>]*)>(.*?)</texttable>', re.S)
_ANCH = re.compile(r'''anchor\s*=\s*(['"])(.*?)\1''')
_COL = re.compile(r'<ttcol\b[^>]*>(.*?)</ttcol>', re.S)
_CELL = re.compile(r'<c\s*/>|<c>(.*?)</c>', re.S)
_TAG = re.compile(r'<[^>]+>')


class Table:
    def __init__(self, anchor, cols, rows, line):
        self.anchor = anchor
        self.cols = cols
        self.rows = rows
        self.line = line

    def column(self, i):
        return [r[i] for r in self.rows]


def _clean(s):
    s = _TAG.sub('', s or '')
    s = s.replace('&lt;', '<').replace('&gt;', '>').replace('&amp;', '&')
    return ' '.join(s.split())


def load(repo=None):
    path = os.path.join(repo or REPO, XML)
    if not os.path.exists(path):
        raise AnalysisBroken('RFC source %s not found' % XML)
    text = open(path, encoding='utf-8', errors='replace').read()
    tables = {}
    payload = hashlib.sha256()
    for m in _TT.finditer(text):
        a = _ANCH.search(m.group(1))
        if not a:
            continue
        anchor = a.group(2)
        body = m.group(2)
        cols = [_clean(c) for c in _COL.findall(body)]
        cells = [_clean(c.group(1)) for c in _CELL.finditer(body)]
        n = len(cols)
        if n == 0:
            continue
        rows = [cells[i:i + n] for i in range(0, len(cells), n)]
        line = text.count('\n', 0, m.start()) + 1
        tables[anchor] = Table(anchor, cols, rows, line)
        payload.update(anchor.encode())
        payload.update(repr(rows).encode())
    return tables, payload.hexdigest()


_PDF = re.compile(r'\{([^}]*)\}\s*/\s*(\d+)')


def pdf(cell):
    """'{1, 2, 253}/256' -> ([1,2,253], 256)   (None if the cell holds no PDF)"""
    m = _PDF.search(cell)
    if not m:
        return None
    vals = [int(x) for x in m.group(1).replace(',', ' ').split()]
    return vals, int(m.group(2))


def pdf_to_icdf(vals, total=256, drop_leading_zeros=True):
    """inverse CDF as stored by the range coder tables: icdf[k] = total - sum(vals[0..k]);
    symbols of probability zero at the front are not stored by the C tables"""
    if drop_leading_zeros:
        while vals and vals[0] == 0:
            vals = vals[1:]
    out = []
    acc = 0
    for v in vals:
        acc += v
        out.append(total - acc)
    return out


def ints(cell):
    """all integers in a cell ('-' signs honoured)"""
    return [int(x) for x in re.findall(r'-?\d+', cell)]


if __name__ == '__main__':
    import sys
    t, h = load()
    print(len(t), 'tables', h[:16])
    for a, tb in t.items():
        if len(sys.argv) > 1 and a not in sys.argv[1:]:
            continue
        print('==', a, 'line', tb.line, tb.cols, len(tb.rows), 'rows')
        for r in tb.rows[:int(os.environ.get('N', '6'))]:
            print('   ', r)
