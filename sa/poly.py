"""Multivariate polynomials with rational coefficients over opaque symbols:
the normal form used to compare extracted size / rate expressions."""
from fractions import Fraction


class Poly:
    __slots__ = ('t',)

    def __init__(self, t=None):
        self.t = {k: v for k, v in (t or {}).items() if v != 0}

    @staticmethod
    def const(c):
        return Poly({(): Fraction(c)})

    @staticmethod
    def sym(name):
        return Poly({((name, 1),): Fraction(1)})

    def __add__(self, o):
        t = dict(self.t)
        for k, v in o.t.items():
            t[k] = t.get(k, 0) + v
        return Poly(t)

    def __neg__(self):
        return Poly({k: -v for k, v in self.t.items()})

    def __sub__(self, o):
        return self + (-o)

    def __mul__(self, o):
        t = {}
        for k1, v1 in self.t.items():
            for k2, v2 in o.t.items():
                m = {}
                for s, p in k1 + k2:
                    m[s] = m.get(s, 0) + p
                k = tuple(sorted(m.items()))
                t[k] = t.get(k, 0) + v1 * v2
        return Poly(t)

    def scale(self, c):
        return Poly({k: v * Fraction(c) for k, v in self.t.items()})

    def is_zero(self):
        return not self.t

    def is_const(self):
        return all(k == () for k in self.t)

    def const_value(self):
        return self.t.get((), Fraction(0))

    def coeff_of(self, name):
        """(P1, P0) with self = name*P1 + P0, or None when `name` occurs with a power other than 1"""
        p1, p0 = {}, {}
        for k, v in self.t.items():
            d = dict(k)
            if name in d:
                if d[name] != 1:
                    return None
                del d[name]
                p1[tuple(sorted(d.items()))] = v
            else:
                p0[k] = v
        return Poly(p1), Poly(p0)

    def symbols(self):
        return {s for k in self.t for s, p in k}

    def ratio_to(self, o):
        """rational q with self == q*o, else None"""
        if o.is_zero():
            return None
        k0 = next(iter(o.t))
        if k0 not in self.t:
            return None
        q = self.t[k0] / o.t[k0]
        return q if (self - o.scale(q)).is_zero() else None

    def __eq__(self, o):
        return (self - o).is_zero()

    def __repr__(self):
        if not self.t:
            return '0'
        out = []
        for k, v in sorted(self.t.items()):
            m = '*'.join(s if p == 1 else '%s^%d' % (s, p) for s, p in k)
            out.append(('%s*%s' % (v, m)) if m and v != 1 else (m or str(v)))
        return ' + '.join(out)
