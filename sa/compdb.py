"""Resolved-program access: configure /repo's *current working tree* with cmake
in a scratch directory, take the compilation database, and run the opusfacts
extractor over the library TUs (16 in parallel, one JSON per TU).

Facts are a pure function of (source tree content, cmake options, extractor
binary); they are cached under /verif/.cache keyed by a SHA-256 over exactly
those inputs, recomputed on every run, so an edited tree is always re-analysed
and an unchanged tree is not re-parsed by each of the 19 checks.
"""
import hashlib, json, os, shutil, subprocess, sys, tempfile, fcntl, time
from concurrent.futures import ThreadPoolExecutor

REPO = os.environ.get('VERIF_REPO', '/repo')
VERIF = os.path.dirname(os.path.dirname(os.path.abspath(__file__)))
TOOL = os.path.join(VERIF, 'tool', 'opusfacts')
CACHE = os.environ.get('VERIF_CACHE') or os.path.join(VERIF, '.cache')

CONFIGS = {
    'float':      ['-DOPUS_BUILD_TESTING=ON'],
    'fixed':      ['-DOPUS_FIXED_POINT=ON'],
    'fixed24':    ['-DOPUS_FIXED_POINT=ON', '-DCMAKE_C_FLAGS=-DENABLE_RES24'],
    'nofloatapi': ['-DOPUS_FIXED_POINT=ON', '-DOPUS_ENABLE_FLOAT_API=OFF'],
    'custom':     ['-DOPUS_CUSTOM_MODES=ON'],
    'nortcd':     ['-DOPUS_DISABLE_INTRINSICS=ON'],
}

SRC_DIRS = ['celt', 'silk', 'src', 'include', 'dnn', 'cmake']
SRC_EXT = ('.c', '.h', '.cmake', '.txt', '.mk', '.in')


class AnalysisBroken(Exception):
    pass


def tree_hash(repo=None):
    repo = repo or REPO
    h = hashlib.sha256()
    files = []
    for d in SRC_DIRS:
        for root, dirs, fs in os.walk(os.path.join(repo, d)):
            dirs.sort()
            for f in sorted(fs):
                if f.endswith(SRC_EXT):
                    files.append(os.path.join(root, f))
    for f in sorted(os.listdir(repo)):
        p = os.path.join(repo, f)
        if os.path.isfile(p) and f.endswith(SRC_EXT):
            files.append(p)
    for p in files:
        h.update(os.path.relpath(p, repo).encode())
        h.update(b'\0')
        with open(p, 'rb') as fh:
            h.update(hashlib.sha256(fh.read()).digest())
    with open(TOOL, 'rb') as fh:
        h.update(hashlib.sha256(fh.read()).digest())
    return h.hexdigest()[:24]


def ensure_tool():
    src = TOOL + '.cc'
    if not os.path.exists(TOOL) or os.path.getmtime(TOOL) < os.path.getmtime(src):
        r = subprocess.run([os.path.join(VERIF, 'tool', 'build.sh')], capture_output=True, text=True)
        if r.returncode != 0 or not os.path.exists(TOOL):
            raise AnalysisBroken('cannot build opusfacts: ' + r.stderr[-2000:])


def _configure(config, builddir, repo):
    opts = CONFIGS[config]
    cmd = ['cmake', '-S', repo, '-B', builddir, '-G', 'Ninja'] + opts
    r = subprocess.run(cmd, capture_output=True, text=True)
    if r.returncode != 0:
        raise AnalysisBroken('cmake configure failed for %s: %s' % (config, r.stderr[-2000:]))
    r = subprocess.run(['ninja', '-C', builddir, '-t', 'compdb'], capture_output=True, text=True)
    if r.returncode != 0:
        raise AnalysisBroken('ninja compdb failed: ' + r.stderr[-2000:])
    db = json.loads(r.stdout)
    seen = set()
    out = []
    for e in db:
        f = e['file']
        if not e.get('command', '').strip() or not f.endswith('.c'):
            continue
        rel = os.path.relpath(f, repo)
        if rel.startswith('tests/') or rel.startswith('..') or '/tests/' in rel or '/demo' in rel:
            continue
        if rel in seen:
            continue
        seen.add(rel)
        # drop dependency-file options; clang does not need them
        toks = e['command'].split()
        cl = []
        skip = 0
        for t in toks:
            if skip:
                skip -= 1
                continue
            if t in ('-MD', '-MMD'):
                continue
            if t in ('-MT', '-MF', '-MQ'):
                skip = 1
                continue
            cl.append(t)
        e2 = {'directory': e['directory'], 'file': f, 'command': ' '.join(cl), 'rel': rel}
        out.append(e2)
    if len(out) < 100:
        raise AnalysisBroken('compilation database for %s has only %d library units' % (config, len(out)))
    return out


def _extract_one(args):
    builddir, entry, outpath, repo = args
    cmd = [TOOL, '-p', builddir, '--root', repo, '-o', outpath + '.tmp', entry['file']]
    r = subprocess.run(cmd, capture_output=True, text=True)
    if r.returncode != 0 or not os.path.exists(outpath + '.tmp'):
        return (entry['rel'], 'extractor failed: ' + (r.stderr or '')[-1500:])
    os.replace(outpath + '.tmp', outpath)
    return (entry['rel'], None)


def facts_dir(config='float', repo=None):
    """Returns the directory holding one JSON per TU for `config` of the current
    tree (extracting them if they are not cached) and the unit index."""
    repo = repo or REPO
    ensure_tool()
    th = tree_hash(repo)
    os.makedirs(CACHE, exist_ok=True)
    d = os.path.join(CACHE, th, config)
    lockf = open(os.path.join(CACHE, '.lock.%s.%s' % (th, config)), 'w')
    fcntl.flock(lockf, fcntl.LOCK_EX)
    try:
        idx = os.path.join(d, 'INDEX.json')
        if os.path.exists(idx):
            return d, json.load(open(idx))
        _prune_cache(keep=th)
        os.makedirs(d, exist_ok=True)
        builddir = tempfile.mkdtemp(prefix='opusverif-cdb-')
        try:
            entries = _configure(config, builddir, repo)
            with open(os.path.join(builddir, 'compile_commands.json'), 'w') as fh:
                json.dump([{k: e[k] for k in ('directory', 'file', 'command')} for e in entries], fh)
            jobs = []
            for e in entries:
                outp = os.path.join(d, e['rel'].replace('/', '__') + '.json')
                e['facts'] = os.path.basename(outp)
                jobs.append((builddir, e, outp, repo))
            t0 = time.time()
            with ThreadPoolExecutor(max_workers=16) as ex:
                res = list(ex.map(_extract_one, jobs))
            bad = [r for r in res if r[1]]
            if bad:
                raise AnalysisBroken('extraction failed for %d units, first: %s %s' % (len(bad), bad[0][0], bad[0][1]))
            for hdr in ('config.h',):
                if os.path.exists(os.path.join(builddir, hdr)):
                    shutil.copy(os.path.join(builddir, hdr), os.path.join(d, hdr))
            index = {'config': config, 'tree': th, 'extract_s': round(time.time() - t0, 2),
                     'commands': {e['rel']: e['command'].replace(builddir, '@BUILDDIR@') for e in entries},
                     'units': [{'rel': e['rel'], 'facts': e['facts'],
                                'D': sorted(t[2:] for t in e['command'].split() if t.startswith('-D')),
                                'm': sorted(t[2:] for t in e['command'].split() if t.startswith('-m'))}
                               for e in entries]}
            with open(idx + '.tmp', 'w') as fh:
                json.dump(index, fh)
            os.replace(idx + '.tmp', idx)
            return d, index
        except BaseException:
            shutil.rmtree(d, ignore_errors=True)
            raise
        finally:
            shutil.rmtree(builddir, ignore_errors=True)
    finally:
        fcntl.flock(lockf, fcntl.LOCK_UN)
        lockf.close()


def _prune_cache(keep):
    try:
        ents = [e for e in os.listdir(CACHE) if not e.startswith('.') and e != keep]
        ents.sort(key=lambda e: os.path.getmtime(os.path.join(CACHE, e)))
        # keep at most 2 older trees
        for e in ents[:-2] if len(ents) > 2 else []:
            shutil.rmtree(os.path.join(CACHE, e), ignore_errors=True)
        for e in os.listdir(CACHE):
            if e.startswith('.lock.') and keep not in e:
                p = os.path.join(CACHE, e)
                if time.time() - os.path.getmtime(p) > 3600:
                    try:
                        os.unlink(p)
                    except OSError:
                        pass
    except OSError:
        pass


def extract_variant(config, rel, files, repo=None):
    """Self-test support: re-extract ONE unit with the text of its main file
    and/or of headers it includes replaced.  `files` maps repo-relative paths
    to new text.  The scratch copies live in a mirror tree outside /repo and
    /verif (removed immediately); quoted includes resolve to the mirror first
    and to the repo's directories otherwise.  Returns (facts, error)."""
    repo = repo or REPO
    ensure_tool()
    builddir = tempfile.mkdtemp(prefix='opusverif-var-')
    try:
        # compile command of the unit as produced by cmake for the current
        # tree (cached with the facts; config.h is kept next to them)
        fdir, idx = facts_dir(config, repo)
        cmdt = idx.get('commands', {}).get(rel)
        if cmdt is None:
            return None, 'unit %s not in configuration %s' % (rel, config)
        e = {'file': os.path.join(repo, rel), 'directory': fdir, 'command': cmdt.replace('@BUILDDIR@', fdir)}
        # mirror tree: a symlink farm of the repo's sources with the edited
        # files replaced by real copies, so that every quoted include (also
        # from unedited headers) resolves inside the mirror
        mirror = os.path.join(builddir, 'variant')
        files = dict(files)
        for d in SRC_DIRS:
            for root, dirs, fs in os.walk(os.path.join(repo, d)):
                relroot = os.path.relpath(root, repo)
                os.makedirs(os.path.join(mirror, relroot), exist_ok=True)
                for fn in fs:
                    r = os.path.join(relroot, fn)
                    if r not in files:
                        os.symlink(os.path.join(root, fn), os.path.join(mirror, r))
        for r, text in files.items():
            dst = os.path.join(mirror, r)
            os.makedirs(os.path.dirname(dst), exist_ok=True)
            with open(dst, 'w') as fh:
                fh.write(text)
        sp = os.path.join(mirror, rel)
        cmd = e['command'].replace(repo + '/', mirror + '/').replace('-I' + repo + ' ', '-I' + mirror + ' ')
        with open(os.path.join(builddir, 'compile_commands.json'), 'w') as fh:
            json.dump([{'directory': e['directory'], 'file': sp, 'command': cmd}], fh)
        outp = os.path.join(builddir, 'variant.json')
        r = subprocess.run([TOOL, '-p', builddir, '--root', mirror, '-o', outp, sp],
                           capture_output=True, text=True)
        if r.returncode != 0 or not os.path.exists(outp):
            return None, (r.stderr or '')[-1500:]
        tu = json.load(open(outp))
        if tu.get('errors'):
            return None, 'variant does not compile: ' + (r.stderr or '')[-800:]
        # paths inside the repo keep their repo-relative form
        txt = json.dumps(tu).replace(repo + '/', '')
        tu = json.loads(txt)
        tu['tu'] = rel
        return tu, None
    finally:
        shutil.rmtree(builddir, ignore_errors=True)


if __name__ == '__main__':
    cfg = sys.argv[1] if len(sys.argv) > 1 else 'float'
    t0 = time.time()
    d, idx = facts_dir(cfg)
    print(d, len(idx['units']), 'units', round(time.time() - t0, 1), 's')


def extract_snippet(text, name='control.c', flags=('-std=gnu99',)):
    """Parse a small stand-alone C text through the same extractor (used for
    positive controls that must be flagged on every run)."""
    ensure_tool()
    d = tempfile.mkdtemp(prefix='opusverif-snip-')
    try:
        sp = os.path.join(d, name)
        with open(sp, 'w') as fh:
            fh.write(text)
        with open(os.path.join(d, 'compile_commands.json'), 'w') as fh:
            json.dump([{'directory': d, 'file': sp, 'command': 'cc ' + ' '.join(flags) + ' -c ' + sp}], fh)
        outp = os.path.join(d, 'out.json')
        r = subprocess.run([TOOL, '-p', d, '--root', d, '-o', outp, sp], capture_output=True, text=True)
        if r.returncode != 0 or not os.path.exists(outp):
            raise AnalysisBroken('control snippet does not parse: ' + (r.stderr or '')[-800:])
        return json.load(open(outp))
    finally:
        shutil.rmtree(d, ignore_errors=True)
