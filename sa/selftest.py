"""Rule self-test (thorough tier): seeded one-edit variants of /repo files are
extracted from scratch copies and the named rule must report `violated`.
A variant whose `find` text is no longer present exactly once in the current
tree is skipped (counted); a variant that applies and is not flagged makes the
run analysis-broken ("rule lost its teeth").  Never turns into a VIOLATION."""
import json, os, time
from . import compdb
from .report import Report

VERIF = compdb.VERIF


def load(pid):
    p = os.path.join(VERIF, 'selftest', pid + '.json')
    if not os.path.exists(p):
        return []
    return json.load(open(p))


def apply_edit(text, find, replace, count=1):
    n = text.count(find)
    if n != count:
        return None
    return text.replace(find, replace)


def run(pid, mod, rep, base_programs, only=None):
    """base_programs: dict config -> Program (already built by the main run)"""
    variants = load(pid)
    results = []
    for v in variants:
        if only and v['name'] not in only:
            continue
        t0 = time.time()
        config = v.get('config', 'float')
        res = {'name': v['name'], 'rule': v['rule'], 'config': config}
        base = base_programs.get(config)
        if base is None:
            res['outcome'] = 'skipped: configuration not analysed in this run'
            results.append(res)
            continue
        files = {}
        applies = True
        for ed in v['edits']:
            path = os.path.join(compdb.REPO, ed['file'])
            if not os.path.exists(path):
                applies = False
                break
            text = files.get(ed['file']) or open(path).read()
            new = apply_edit(text, ed['find'], ed['replace'], ed.get('count', 1))
            if new is None:
                applies = False
                break
            files[ed['file']] = new
        if not applies:
            res['outcome'] = 'skipped: edit no longer applies to the current tree'
            results.append(res)
            continue
        units = v.get('units') or [e['file'] for e in v['edits'] if e['file'].endswith('.c')]
        prog = base
        err = None
        for rel in units:
            tu, err = compdb.extract_variant(config, rel, files)
            if tu is None:
                break
            prog = prog.with_replaced(rel, tu)
        if err:
            res['outcome'] = 'skipped: variant does not build: ' + err[-300:]
            results.append(res)
            continue
        scratch = Report(pid, 'thorough', rep.level, 'selftest')
        try:
            from . import templates
            templates.PROG[0] = prog
            mod.check(scratch, prog, 'selftest')
            if hasattr(mod, 'finish'):
                vp = dict(base_programs)
                vp[config] = prog
                mod.finish(scratch, 'selftest', vp)
        except compdb.AnalysisBroken as e:
            scratch.unresolved('analysis', str(e))
        hit = [x for x in scratch.violations if x['rule'] == v['rule'] and (not v.get('expect') or v['expect'] in (str(x['instance']) + ' ' + str(x['detail']) + ' ' + str(x['key'])))]
        if hit:
            res['outcome'] = 'flagged'
            res['report'] = '%s at %s: %s' % (hit[0]['instance'], hit[0]['where'], str(hit[0]['detail'])[:200])
        else:
            others = ['%s %s' % (x['rule'], x['instance']) for x in scratch.violations][:3]
            unres = [u['what'][:120] for u in scratch.unresolved_l][:2]
            res['outcome'] = 'NOT FLAGGED'
            res['other_reports'] = others
            res['unresolved'] = unres
            rep.unresolved('selftest', 'seeded variant %s (rule %s) was not flagged; other reports %s; unresolved %s' % (v['name'], v['rule'], others, unres))
        res['wall_s'] = round(time.time() - t0, 2)
        results.append(res)
    rep.selftest = results
    return results
