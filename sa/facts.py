"""Program model built from the per-TU fact files."""
import json, os
from . import compdb, sx
from .compdb import AnalysisBroken


class Function:
    __slots__ = ('name', 'file', 'tu', 'd', 'blocks', 'entry', 'exit', 'params', 'locals', '_ev')

    def __init__(self, d, tu):
        self.d = d
        self.name = d['name']
        self.file = d['file']
        self.tu = tu
        self.blocks = {b['id']: b for b in d.get('blocks', [])}
        self.entry = d.get('entry')
        self.exit = d.get('exit')
        self.params = d['params']
        self.locals = {l['id']: l for l in d.get('locals', [])}
        self._ev = None

    @property
    def line(self):
        return self.d['line']

    @property
    def static(self):
        return self.d['static']

    def where(self, ln=None):
        return '%s:%s' % (self.file, ln if ln else self.line)

    def stmts(self):
        """all (block id, stmt) incl. terminator conditions (as ['cond', e])"""
        for bid in sorted(self.blocks, reverse=True):
            b = self.blocks[bid]
            for s in b['stmts']:
                yield bid, s
            t = b.get('term')
            if t and 'cond' in t:
                yield bid, t['cond']

    def block_exprs(self, b):
        out = list(b['stmts'])
        t = b.get('term')
        if t and 'cond' in t:
            out.append(t['cond'])
        return out

    def all_nodes(self):
        for _, s in self.stmts():
            yield from sx.walk(s)

    def calls(self):
        for n in self.all_nodes():
            if n[0] == 'call':
                yield n

    def param_index(self, name):
        for i, p in enumerate(self.params):
            if p['name'] == name:
                return i
        return None


class Program:
    """All library TUs of one build configuration."""

    def __init__(self, config='float', units=None, repo=None):
        self.config = config
        d, idx = compdb.facts_dir(config, repo)
        self.dir = d
        self.index = idx
        self.tree = idx['tree']
        self.units = {}
        self.unit_flags = {u['rel']: u for u in idx['units']}
        want = None if units is None else set(units)
        for u in idx['units']:
            if want is not None and u['rel'] not in want:
                continue
            with open(os.path.join(d, u['facts'])) as fh:
                self.units[u['rel']] = json.load(fh)
        if want is not None:
            missing = want - set(self.units)
            if missing:
                raise AnalysisBroken('units not in configuration %s: %s' % (config, sorted(missing)))
        self._index()

    @classmethod
    def from_tus(cls, tus, config='variant'):
        self = cls.__new__(cls)
        self.config = config
        self.dir = None
        self.index = {'units': []}
        self.tree = 'variant'
        self.units = dict(tus)
        self.unit_flags = {}
        self._index()
        return self

    def with_replaced(self, rel, tu):
        """copy of this program with one unit's facts replaced (self-test)"""
        tus = dict(self.units)
        tus[rel] = tu
        p = Program.from_tus(tus, self.config + '+variant')
        p.unit_flags = self.unit_flags
        return p

    def _index(self):
        self.functions = {}      # name -> Function  (first definition wins; header inlines dedup)
        self.functions_all = []  # every distinct (file,name)
        self.globals = {}        # name -> dict (definition preferred)
        self.global_defs = {}    # name -> list of (tu, dict) definitions
        self.records = {}
        self.protos = {}
        self.macros = {}
        seen = set()
        for rel in sorted(self.units):
            tu = self.units[rel]
            for k, v in tu.get('macros', {}).items():
                self.macros.setdefault(k, {})[rel] = v
            for r in tu['records']:
                if r['name'] not in self.records:
                    self.records[r['name']] = r
            for g in tu['globals']:
                cur = self.globals.get(g['name'])
                if g.get('defined'):
                    self.global_defs.setdefault(g['name'], []).append((rel, g))
                if cur is None or (g.get('defined') and not cur.get('defined')):
                    g = dict(g)
                    g['tu'] = rel
                    self.globals[g['name']] = g
            for p in tu.get('protos', []):
                self.protos.setdefault(p['name'], p)
            for fd in tu['functions']:
                k = (fd['file'], fd['name'])
                if k in seen:
                    continue
                seen.add(k)
                f = Function(fd, rel)
                self.functions_all.append(f)
                # a static function of the same name in two TUs: keep both in
                # functions_all; by-name lookup prefers the non-static / first
                cur = self.functions.get(f.name)
                if cur is None or (cur.static and not f.static):
                    self.functions[f.name] = f
        self.by_file = {}
        for f in self.functions_all:
            self.by_file.setdefault(f.file, {})[f.name] = f

    def fn(self, name, file=None):
        if file is not None:
            f = self.by_file.get(file, {}).get(name)
        else:
            f = self.functions.get(name)
        if f is None:
            raise AnalysisBroken('anchor function %s%s not found in configuration %s' %
                                 (name, (' in ' + file) if file else '', self.config))
        return f

    def has_fn(self, name):
        return name in self.functions

    def resolve_in(self, caller, name):
        """callee lookup honouring static functions of the caller's own file"""
        f = self.by_file.get(caller.file, {}).get(name)
        if f is not None:
            return f
        f = self.by_file.get(caller.tu, {}).get(name)
        if f is not None:
            return f
        return self.functions.get(name)

    def glob(self, name):
        g = self.globals.get(name)
        if g is None:
            raise AnalysisBroken('anchor object %s not found in configuration %s' % (name, self.config))
        return g

    def table(self, name):
        g = self.glob(name)
        if 'init' not in g or g['init'] == 'unevaluated':
            raise AnalysisBroken('object %s has no evaluated initialiser' % name)
        return g['init']

    def record(self, name):
        r = self.records.get(name)
        if r is None:
            raise AnalysisBroken('anchor record %s not found' % name)
        return r

    def field(self, rec, fname):
        for f in self.record(rec)['fields']:
            if f['name'] == fname:
                return f
        raise AnalysisBroken('field %s.%s not found' % (rec, fname))

    def callees(self, f, node):
        """resolve a call node to Function objects / external names.
        returns (list of Function, list of external names, resolved: bool)"""
        c = node[1]
        if c[0] == 'func':
            g = self.resolve_in(f, c[1])
            return ([g], [], True) if g else ([], [c[1]], True)
        # (*TABLE[idx])(...)  or TABLE[idx](...)
        e = sx.strip(c)
        while e and e[0] in ('deref', 'paren'):
            e = sx.strip(e[1])
        if e and e[0] == 'idx':
            b = sx.strip(e[1])
            if b[0] == 'global':
                g = self.globals.get(b[1])
                if g is not None and isinstance(g.get('init'), list):
                    fs, ext = [], []
                    for it in _flatten(g['init']):
                        if isinstance(it, dict) and it.get('isfunc'):
                            h = self.functions.get(it['addr'])
                            (fs if h else ext).append(h or it['addr'])
                    return fs, ext, True
        # call through a function-pointer parameter: the functions passed at
        # that position by any caller (transitively through forwarding)
        r = sx.strip(c)
        while r and r[0] in ('deref', 'paren'):
            r = sx.strip(r[1])
        if r and r[0] == 'param':
            names = self.fp_params().get((f.name, r[1]))
            if names:
                fs = [self.functions[n] for n in sorted(names) if n in self.functions]
                ext = [n for n in sorted(names) if n not in self.functions]
                return fs, ext, True
        return [], [], False

    def fp_params(self):
        if getattr(self, '_fp', None) is not None:
            return self._fp
        fp = {}
        self._fp = fp
        changed = True
        rounds = 0
        while changed and rounds < 10:
            changed = False
            rounds += 1
            for f in self.functions_all:
                for c in f.calls():
                    cn = sx.callee_name(c)
                    if cn is None:
                        continue
                    for j, a in enumerate(c[2]):
                        a = sx.strip(a)
                        while a and a[0] == 'addr':
                            a = sx.strip(a[1])
                        s = None
                        if a and a[0] == 'func':
                            s = {a[1]}
                        elif a and a[0] == 'param' and (f.name, a[1]) in fp:
                            s = fp[(f.name, a[1])]
                        if s:
                            cur = fp.setdefault((cn, j), set())
                            if not s <= cur:
                                cur |= s
                                changed = True
        return fp


def _flatten(x):
    if isinstance(x, list):
        for y in x:
            yield from _flatten(y)
    elif isinstance(x, dict) and not ('addr' in x or 'str' in x or 'complit' in x or 'lvalue' in x):
        for y in x.values():
            yield from _flatten(y)
    else:
        yield x


flatten = _flatten
