"""CFG utilities over the exported clang CFG: dominators, post-dominators,
reachability, must-pass-through, and statement positions."""
from . import sx


class CFG:
    def __init__(self, f):
        self.f = f
        self.blocks = f.blocks
        self.succ = {b: [s for s in f.blocks[b]['succ'] if s is not None] for b in f.blocks}
        self.pred = {b: [] for b in f.blocks}
        for b, ss in self.succ.items():
            for s in ss:
                self.pred[s].append(b)
        self.entry = f.entry
        self.exit = f.exit
        self._dom = None
        self._pdom = None
        self._reach = {}

    # block-level successor with edge polarity: (succ, polarity) where polarity
    # is True/False for the two-way branch on the block's condition, None else
    def edges(self, b):
        blk = self.blocks[b]
        t = blk.get('term')
        ss = blk['succ']
        if t and 'cond' in t and len(ss) == 2 and t['kind'] != 'SwitchStmt':
            out = []
            if ss[0] is not None:
                out.append((ss[0], True))
            if ss[1] is not None:
                out.append((ss[1], False))
            return out
        return [(s, None) for s in ss if s is not None]

    def cond(self, b):
        t = self.blocks[b].get('term')
        return t.get('cond') if t else None

    def _compute_dom(self, entry, succ, pred):
        nodes = self._rpo(entry, succ)
        idx = {n: i for i, n in enumerate(nodes)}
        dom = {n: None for n in nodes}
        dom[entry] = entry

        def inter(a, b):
            while a != b:
                while idx[a] > idx[b]:
                    a = dom[a]
                while idx[b] > idx[a]:
                    b = dom[b]
            return a
        changed = True
        while changed:
            changed = False
            for n in nodes[1:]:
                ps = [p for p in pred[n] if p in idx and dom[p] is not None]
                if not ps:
                    continue
                new = ps[0]
                for p in ps[1:]:
                    new = inter(new, p)
                if dom[n] != new:
                    dom[n] = new
                    changed = True
        return dom

    def _rpo(self, entry, succ):
        seen = set()
        order = []
        stack = [(entry, iter(succ.get(entry, [])))]
        seen.add(entry)
        while stack:
            n, it = stack[-1]
            adv = False
            for s in it:
                if s not in seen:
                    seen.add(s)
                    stack.append((s, iter(succ.get(s, []))))
                    adv = True
                    break
            if not adv:
                order.append(n)
                stack.pop()
        order.reverse()
        return order

    @property
    def idom(self):
        if self._dom is None:
            self._dom = self._compute_dom(self.entry, self.succ, self.pred)
        return self._dom

    @property
    def ipdom(self):
        if self._pdom is None:
            self._pdom = self._compute_dom(self.exit, self.pred, self.succ)
        return self._pdom

    def dominates(self, a, b):
        """block a dominates block b"""
        d = self.idom
        if b not in d or d[b] is None:
            return False
        while True:
            if a == b:
                return True
            nb = d.get(b)
            if nb is None or nb == b:
                return False
            b = nb

    def postdominates(self, a, b):
        d = self.ipdom
        if b not in d or d[b] is None:
            return False
        while True:
            if a == b:
                return True
            nb = d.get(b)
            if nb is None or nb == b:
                return False
            b = nb

    def reachable_from(self, b, avoid=()):
        key = (b, tuple(sorted(avoid)))
        if key in self._reach:
            return self._reach[key]
        seen = set()
        work = [b]
        av = set(avoid)
        while work:
            n = work.pop()
            for s in self.succ.get(n, []):
                if s not in seen and s not in av:
                    seen.add(s)
                    work.append(s)
        self._reach[key] = seen
        return seen

    def reachable_blocks(self):
        return {self.entry} | self.reachable_from(self.entry)

    # ---- statement positions
    def positions(self):
        """yield (block, index, stmt) for all statements incl. the branch
        condition (index = len(stmts)) in every reachable block"""
        rb = self.reachable_blocks()
        for b in sorted(rb, reverse=True):
            blk = self.blocks[b]
            for i, s in enumerate(blk['stmts']):
                yield b, i, s
            c = self.cond(b)
            if c is not None:
                yield b, len(blk['stmts']), c

    def find(self, pred):
        """positions of every node (anywhere inside a statement) satisfying pred:
        yields (block, index, node)"""
        for b, i, s in self.positions():
            for n in sx.walk(s):
                if pred(n):
                    yield b, i, n

    def pos_dominates(self, p, q):
        """position p=(block,idx) is executed before q on every path to q"""
        if p[0] == q[0]:
            return p[1] < q[1] or (p[1] == q[1])
        return self.dominates(p[0], q[0])

    def edge_dominates(self, a, s, b):
        """every path from entry to block b goes through edge a->s
        (a has the edge a->s; equivalent: removing the edge makes b unreachable)"""
        seen = {self.entry}
        work = [self.entry]
        while work:
            n = work.pop()
            for t in self.succ.get(n, []):
                if n == a and t == s:
                    continue
                if t not in seen:
                    seen.add(t)
                    work.append(t)
        return b not in seen

    def must_pass(self, frm, to_set, through):
        """every path from block `frm` to any block in `to_set` passes through a
        block in `through` (blocks in `through` reached first count)"""
        seen = {frm}
        work = [frm]
        if frm in through:
            return True
        while work:
            n = work.pop()
            if n in to_set:
                return False
            for t in self.succ.get(n, []):
                if t in through or t in seen:
                    continue
                seen.add(t)
                work.append(t)
        return True

    def noreturn_blocks(self):
        """blocks that end in a call that does not return (failed assertion)"""
        if getattr(self, '_noret', None) is None:
            nr = set()
            for b, blk in self.blocks.items():
                for s in blk['stmts']:
                    if any(n[0] == 'call' and sx.callee_name(n) in ('celt_fatal', 'abort', '__assert_fail', 'exit') for n in sx.walk(s)):
                        nr.add(b)
            self._noret = nr
        return self._noret

    def must_pass_live(self, frm, to_set, through):
        """must_pass ignoring paths that die in a failed assertion"""
        nr = self.noreturn_blocks()
        seen = {frm}
        work = [frm]
        if frm in through:
            return True
        while work:
            n = work.pop()
            if n in to_set:
                return False
            if n in nr:
                continue
            for t in self.succ.get(n, []):
                if t in through or t in seen:
                    continue
                seen.add(t)
                work.append(t)
        return True

    def reachable_cutting(self, start, cut_edges):
        """blocks reachable from `start` without traversing any edge in cut_edges"""
        seen = {start}
        work = [start]
        while work:
            n = work.pop()
            for t in self.succ.get(n, []):
                if (n, t) in cut_edges or t in seen:
                    continue
                seen.add(t)
                work.append(t)
        return seen

    def natural_loops(self):
        """[(head, latch, body-set)] for every back edge latch -> head (head dominates latch)"""
        out = []
        for b in self.blocks:
            for h in self.succ[b]:
                if self.dominates(h, b):
                    body = {h, b}
                    work = [b]
                    while work:
                        x = work.pop()
                        if x == h:
                            continue
                        for q in self.pred[x]:
                            if q not in body:
                                body.add(q)
                                work.append(q)
                    out.append((h, b, body))
        return out

    def exit_blocks(self):
        """blocks that contain a return (or fall to exit)"""
        return [b for b in self.blocks if self.exit in self.succ.get(b, [])]

    def return_sites(self):
        for b, i, s in self.positions():
            if sx.kind(s) == 'ret':
                yield b, i, s


def guards_of(cfg, b):
    """branch conditions that control reaching block b: list of
    (cond_expr, polarity, guard_block) such that every path to b takes that
    edge (edge-dominance).  Walks the dominator chain."""
    out = []
    d = cfg.idom
    n = b
    seen = set()
    while n is not None and n not in seen:
        seen.add(n)
        p = d.get(n)
        if p is None or p == n:
            break
        # does p branch, and does one of its edges dominate b?
        es = cfg.edges(p)
        if len(es) == 2 and es[0][1] is not None:
            for s, pol in es:
                other = [x for x, _ in es if x != s]
                if s == es[0][0] and s == es[1][0]:
                    continue
                if cfg.edge_dominates(p, s, b):
                    out.append((cfg.cond(p), pol, p))
                    break
        n = p
    return out


def reaching_defs(cf, lid):
    """may-reaching definitions of local `lid`: returns (IN, OUT, defs) with
    IN/OUT: block -> set of def node ids; defs: id -> (block, index, node).
    Plain assignments and initialised declarations kill; compound
    assignments / ++ -- add a definition without killing."""
    defs = {}
    per_block = {}
    for b, i, s in cf.positions():
        for n in sx.walk(s):
            k = None
            if n[0] == 'assign' and sx.kind(sx.strip_paren(n[1])) == 'local' and sx.strip_paren(n[1])[2] == lid:
                k = 'kill'
            elif n[0] == 'cassign' and sx.kind(sx.strip_paren(n[2])) == 'local' and sx.strip_paren(n[2])[2] == lid:
                k = 'add'
            elif n[0] == 'inc' and sx.kind(sx.strip_paren(n[3])) == 'local' and sx.strip_paren(n[3])[2] == lid:
                k = 'add'
            elif n[0] == 'decls':
                for d in n[1]:
                    if d[0] == 'decl' and d[2] == lid and d[3] is not None:
                        defs[id(d)] = (b, i, ['assign', ['local', d[1], d[2]], d[3]])
                        per_block.setdefault(b, []).append((i, 'kill', id(d)))
                continue
            if k:
                defs[id(n)] = (b, i, n)
                per_block.setdefault(b, []).append((i, k, id(n)))
    IN, OUT = {}, {}
    order = cf._rpo(cf.entry, cf.succ)
    changed = True
    while changed:
        changed = False
        for b in order:
            inn = set()
            for p in cf.pred[b]:
                inn |= OUT.get(p, set())
            cur = set(inn)
            for i, k, d in sorted(per_block.get(b, []), key=lambda t: t[0]):
                if k == 'kill':
                    cur = {d}
                else:
                    cur = cur | {d}
            if IN.get(b) != inn or OUT.get(b) != cur:
                IN[b], OUT[b] = inn, cur
                changed = True
    return IN, OUT, defs, per_block


def defs_at(cf, lid, b, i, rd=None):
    """definitions of lid that may reach position (b, i)"""
    IN, OUT, defs, per_block = rd or reaching_defs(cf, lid)
    cur = set(IN.get(b, set()))
    for j, k, d in sorted(per_block.get(b, []), key=lambda t: t[0]):
        if j >= i:
            break
        cur = {d} if k == 'kill' else cur | {d}
    return cur, defs
