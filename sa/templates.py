"""Rule templates shared by the per-property modules (DESIGN.md section 4)."""
from . import sx, cfg as cfgm, guards
from .guards import K, I


PROG = [None]   # set by the driver: program used to resolve callee parameter constness


def stable_facts(cf, block, index=None):
    """atoms known at (block,index): branch facts whose variables are not
    re-assigned between the deciding branch and the position"""
    out = []
    for atom, gb in guards.facts_at(cf, block):
        vs = guards.vars_of_atom(atom)
        if guards.modified_between(cf, gb, block, vs, index, PROG[0]):
            continue
        out.append(atom)
    return out


def show_atom(a):
    def s(k):
        if not isinstance(k, tuple):
            return str(k)
        if k[0] == 'int':
            return str(k[1])
        if k[0] == 'param':
            return 'param#%d' % k[1]
        if k[0] == 'local':
            return 'local#%d' % k[1]
        if k[0] == 'field':
            return s(k[1]) + '.' + k[2]
        if k[0] == 'bin':
            return '(%s %s %s)' % (s(k[2]), k[1], s(k[3]))
        if k[0] == 'call':
            return '%s(...)' % s(k[1])
        if k[0] == 'func':
            return k[1]
        if k[0] == 'idx':
            return '%s[%s]' % (s(k[1]), s(k[2]))
        if k[0] in ('deref',):
            return '*' + s(k[1])
        if k[0] == 'un':
            return k[1] + s(k[2])
        return k[0]
    return '%s %s %s' % (s(a[1]), a[0], s(a[2]))


def t_guard(rep, rule, f, cf, sinks, required, label, key=None):
    """T-GUARD: every sink position (block, index, node) is dominated by
    branches establishing each required atom.  `required` is a list of
    (text, atom) or (text, [alternative atoms])."""
    ok_all = True
    if not sinks:
        rep.unresolved(rule, 'no sink found for %s in %s' % (label, f.name), f.where())
        return False
    for (b, i, node) in sinks:
        known = stable_facts(cf, b, i)
        for text, alts in required:
            if isinstance(alts, tuple):
                alts = [alts]
            where = '%s:%s' % (f.file, sx.line(node) or f.line)
            if any(guards.implies(known, a) for a in alts):
                rep.holds(rule, '%s: %s before %s' % (f.name, text, label), where,
                          'established by dominating branch; known: %s' % ', '.join(show_atom(x) for x in known[:6]))
            else:
                ok_all = False
                rep.violated(rule, '%s: %s before %s' % (f.name, text, label), where,
                             'no dominating branch establishes %s; known facts here: [%s]' %
                             (' or '.join(show_atom(a) for a in alts), ', '.join(show_atom(x) for x in known[:10])),
                             key=key or '%s:%s:%s' % (f.name, label, text))
    return ok_all


def calls_to(cf, names):
    if isinstance(names, str):
        names = (names,)
    return list(cf.find(lambda n: n[0] == 'call' and sx.callee_name(n) in names))


def stores_where(cf, pred):
    """positions of assignments / compound assignments / ++ whose lvalue satisfies pred"""
    out = []
    for b, i, n in cf.find(lambda n: n[0] in ('assign', 'cassign', 'inc')):
        lv = n[1] if n[0] == 'assign' else (n[2] if n[0] == 'cassign' else n[3])
        if pred(lv, n):
            out.append((b, i, n))
    return out


def returns_of(cf):
    """(block, index, ret node) for every return"""
    return [(b, i, s) for b, i, s in cf.positions() if sx.kind(s) == 'ret']


def const_ret(s):
    if s[1] is None:
        return None
    return sx.int_val(s[1])


def failing_edge_action(cf, gb, pol_taken):
    """what happens on the edge of guard block gb that is NOT the polarity
    taken towards the sink: returns ('return', value) | ('goto', label) | None"""
    es = cf.edges(gb)
    for s, pol in es:
        if pol is not None and pol != pol_taken:
            return _block_action(cf, s, 0)
    return None


def _block_action(cf, b, depth):
    if depth > 6:
        return None
    blk = cf.blocks[b]
    for s in blk['stmts']:
        if sx.kind(s) == 'ret':
            return ('return', const_ret(s))
    t = blk.get('term')
    if t and t.get('goto'):
        return ('goto', t['goto'])
    ss = [x for x in blk['succ'] if x is not None]
    if len(ss) == 1:
        lab = cf.blocks[ss[0]].get('label', {})
        if 'name' in lab:
            return ('goto', lab['name'])
        return _block_action(cf, ss[0], depth + 1)
    return None


# ------------------------------------------------------------------ T-ERR

def _mentions_local(e, lid):
    return any(sx.kind(x) == 'local' and x[2] == lid for x in sx.walk(e))


def t_err(rep, rule, prog, f, callees, exceptions=None, config='', ignore=None):
    """T-ERR: every call in f to one of `callees` (functions that can return a
    negative error) has its result checked: used directly in a branch
    condition or return, or assigned to a local that is compared / returned on
    every path before it is overwritten or the function exits.
    exceptions: {(function, callee, ordinal or '*'): reason}"""
    exceptions = exceptions or {}
    cf = cfgm.CFG(f)
    n_sites = 0
    ordinal = {}
    for b, i, s in cf.positions():
        for n in sx.walk(s):
            if n[0] != 'call' or sx.callee_name(n) not in callees:
                continue
            cn = sx.callee_name(n)
            n_sites += 1
            k = ordinal.get(cn, 0)
            ordinal[cn] = k + 1
            where = '%s:%s' % (f.file, sx.line(n))
            inst = '%s%s: result of %s #%d' % (config, f.name, cn, k)
            exc = exceptions.get((f.name, cn, k)) or exceptions.get((f.name, cn, '*'))
            if exc is None and ignore is not None:
                exc = ignore(f, n)
            how = _result_use(cf, f, b, i, s, n)
            if how[0] == 'checked':
                rep.holds(rule, inst, where, how[1])
            elif exc:
                rep.holds(rule, inst + ' (frozen exception)', where, '%s; %s' % (how[1], exc))
            else:
                rep.violated(rule, inst, where, how[1], key='%s:%s:%d' % (f.name, cn, k))
    return n_sites


def _result_use(cf, f, b, i, stmt, call):
    # directly the branch condition / inside it / returned
    blk = cf.blocks[b]
    is_cond = i == len(blk['stmts'])
    if is_cond:
        # (ret = f()) < 0  or  f() != OK
        return ('checked', 'used in the branch condition `%s`' % sx.show(stmt)[:60])
    if sx.kind(stmt) == 'ret':
        return ('checked', 'returned to the caller')
    # find the assignment that receives it
    tgt = None
    for n in sx.walk(stmt):
        if n[0] == 'assign' and any(x is call for x in sx.walk(n[2])):
            tgt = n
        if n[0] == 'decls':
            for d in n[1]:
                if d[0] == 'decl' and d[3] is not None and any(x is call for x in sx.walk(d[3])):
                    tgt = ['assign', ['local', d[1], d[2]], d[3]]
    if tgt is None:
        if stmt is call:
            return ('dropped', 'result discarded (call used as a statement)')
        # used inside a larger expression (argument, arithmetic) without a test
        for n in sx.walk(stmt):
            if n[0] == 'cond' and any(x is call for x in sx.walk(n[1])):
                return ('checked', 'tested by ?:')
        return ('dropped', 'result used in `%s` without being tested' % sx.show(stmt)[:60])
    lv = sx.strip_paren(tgt[1])
    if sx.kind(lv) != 'local':
        return ('checked', 'stored to %s (caller-visible)' % sx.show(lv))
    lid = lv[2]
    # forward search: a test or return of lid on every path before redefinition / exit
    through = set()
    redefs = set()
    for b2 in cf.blocks:
        blk2 = cf.blocks[b2]
        for j, s2 in enumerate(blk2['stmts']):
            if b2 == b and j <= i:
                continue
            if sx.kind(s2) == 'ret' and s2[1] is not None and _mentions_local(s2[1], lid):
                through.add(b2)
            for m in sx.walk(s2):
                if m[0] == 'assign' and sx.kind(m[1]) == 'local' and m[1][2] == lid and b2 not in through:
                    redefs.add(b2)
                if m[0] == 'cond' and _mentions_local(m[1], lid):
                    through.add(b2)
                if m[0] == 'call' and sx.callee_name(m) in ('celt_fatal',):
                    pass
        c = cf.cond(b2)
        if c is not None and _mentions_local(c, lid):
            # the defining block's own condition counts (it is evaluated after the assignment)
            through.add(b2)
    if b in through:
        return ('checked', 'tested in the same block')
    targets = (redefs | {cf.exit}) - {b}
    if cf.must_pass_live(b, targets, through):
        return ('checked', 'local %s is tested or returned on every path before being overwritten' % lv[1])
    return ('unchecked', 'local %s receives the result but some path reaches a redefinition or the exit without testing it' % lv[1])


# ------------------------------------------------------------------ T-EFFECT (control dependence)

def controlled_region(cf, g, pol):
    """blocks executed only when the branch of block g takes polarity pol
    (edge-dominated by that edge), excluding the join"""
    succ = [s for s, p in cf.edges(g) if p is pol]
    if not succ:
        return set()
    s0 = succ[0]
    return {b for b in (cf.reachable_from(g) | {s0}) if cf.edge_dominates(g, s0, b) and not cf.postdominates(b, g)}


def region_effects(cf, f, region):
    """(stores, returns, calls) inside a set of blocks: stores as (node, lvalue)"""
    stores, rets, calls = [], [], []
    for b in region:
        for s in f.block_exprs(cf.blocks[b]):
            if sx.kind(s) == 'ret':
                rets.append(s)
            for n in sx.walk(s):
                if n[0] in ('assign', 'cassign', 'inc'):
                    lv = sx.strip_paren(n[1] if n[0] == 'assign' else (n[2] if n[0] == 'cassign' else n[3]))
                    stores.append((n, lv))
                elif n[0] == 'decls':
                    for d in n[1]:
                        if d[0] == 'decl' and d[3] is not None:
                            stores.append((n, ['local', d[1], d[2]]))
                elif n[0] == 'call':
                    calls.append(n)
    return stores, rets, calls


def locals_live_out(cf, f, region, entry_guard):
    """locals assigned inside the region that may be read after it before
    being re-assigned (conservative)"""
    assigned = {}
    stores, _, _ = region_effects(cf, f, region)
    for n, lv in stores:
        if sx.kind(lv) == 'local':
            assigned[lv[2]] = lv[1]
    live = []
    after = cf.reachable_from(entry_guard) - region
    for lid, name in assigned.items():
        for b in after:
            exprs = f.block_exprs(cf.blocks[b])
            for j, s in enumerate(exprs):
                reads = False
                for m in sx.walk(s):
                    if sx.kind(m) == 'local' and m[2] == lid:
                        reads = True
                # an assignment `lid = ...` whose rhs does not read lid is a pure definition
                pure_def = any(m[0] == 'assign' and sx.kind(m[1]) == 'local' and m[1][2] == lid and not _mentions_local(m[2], lid) for m in sx.walk(s))
                if reads and not pure_def:
                    # is it dominated by a definition outside the region?
                    if not _defined_before(cf, f, region, entry_guard, b, j, lid):
                        live.append((name, sx.line(s) if isinstance(s, list) else None))
                    break
            else:
                continue
            break
    return live


def _defined_before(cf, f, region, g, b, j, lid):
    for s in f.block_exprs(cf.blocks[b])[:j]:
        for m in sx.walk(s):
            if m[0] == 'assign' and sx.kind(m[1]) == 'local' and m[1][2] == lid:
                return True
    for b3 in cf.blocks:
        if b3 in region or b3 == b or b3 not in cf.reachable_from(g):
            continue
        if cf.dominates(b3, b):
            for s in f.block_exprs(cf.blocks[b3]):
                for m in sx.walk(s):
                    if m[0] == 'assign' and sx.kind(m[1]) == 'local' and m[1][2] == lid:
                        return True
    return False
